"""Summarise replays/<PROP> by key: python3 rtm/summ.py C20 [fields...]"""
import json, glob, collections, sys
prop = sys.argv[1]; fields = sys.argv[2:]
c = collections.Counter(); ex = {}
for f in glob.glob('/verif/replays/%s/*.json' % prop):
    d = json.load(open(f)); v = d['violation']; k = (v.get('key') or v['monitor']); c[k] += 1; ex.setdefault(k, (f, v))
for k, n in sorted(c.items()):
    f, v = ex[k]; d = v.get('detail') or {}
    print(n, k, '|', v['monitor'], '|', {kk: d.get(kk) for kk in fields if isinstance(d, dict)} if fields else json.dumps(d)[:300])
