"""
Verify a sub-agent's seeded change and file it under /verif/seeded/<PROP>-<X>/.

    python3 rtm/seedcheck.py C02 A [--no-suite] [--tier quick]

Steps (all in a scratch copy of /repo's current tree, removed afterwards):
  1. patch applies; 2. repository test-suite still passes (101); 3. demo fails with the patch and passes
  without; 4. the registered check for the property reports a VIOLATION on the patched copy.
"""
import json, os, re, shutil, subprocess, sys, tempfile, time

VERIF = os.path.dirname(os.path.dirname(os.path.abspath(__file__)))
PY = "/venv/bin/python"

def sh(cmd, cwd, env=None, timeout=3600):
    e = dict(os.environ); e.update(env or {})
    r = subprocess.run(cmd, cwd=cwd, env=e, capture_output=True, text=True, timeout=timeout, shell=isinstance(cmd, str))
    return r.returncode, r.stdout + r.stderr

def main():
    args = sys.argv[1:]
    suite = "--no-suite" not in args
    tier = "quick"
    if "--tier" in args:
        tier = args[args.index("--tier") + 1]
    props = None
    if "--check" in args:
        props = args[args.index("--check") + 1].split(",")
    prop, x = args[0], args[1]
    src = "/tmp/wt/%s/_seeded/%s" % (prop, x)
    dst = os.path.join(VERIF, "seeded", "%s-%s" % (prop, x))
    if not os.path.exists(os.path.join(src, "patch.diff")):
        src = dst
    patch = os.path.join(src, "patch.diff")
    demo = os.path.join(src, "demo.py")
    meta = {"property": prop, "variant": x, "ran": []}
    scratch = tempfile.mkdtemp(prefix="verif-seed-")
    try:
        clean, pat = scratch + "/clean", scratch + "/patched"
        for d in (clean, pat):
            subprocess.run(["rsync", "-a", "--exclude", ".git", "--exclude", "__pycache__", "/repo/", d + "/"], check=True)
        rc, out = sh(["patch", "-p1", "-s", "-i", patch], pat)
        meta["applies_to_current_tree"] = (rc == 0)
        if rc != 0:
            print("PATCH DOES NOT APPLY:", out[-500:]); meta["ran"].append("patch failed: " + out[-300:])
            print(json.dumps(meta)); return 2
        env = lambda d: {"SAS_DLL_PATH": d + "/.dllcache", "SAS_OPENCL": "none", "PYTHONPATH": d, "TMPDIR": scratch}
        if suite:
            rc, out = sh("%s -m pytest -q -p no:cacheprovider --timeout=900 --continue-on-collection-errors 2>&1 | tail -3" % PY, pat, env(pat))
            m = re.search(r"(\d+) passed", out); f = re.search(r"(\d+) failed", out)
            meta["suite_with_patch"] = {"passed": int(m.group(1)) if m else None, "failed": int(f.group(1)) if f else 0}
            meta["ran"].append("pytest on patched copy: " + out.strip().splitlines()[-1])
        for d in (pat, clean):
            os.makedirs(d + "/_seeded/" + x, exist_ok=True)
            for fn in os.listdir(src):            # the demo and whatever files it brings along (plugin models)
                if fn not in ("patch.diff", "patch.orig.diff", "meta.json") and os.path.isfile(os.path.join(src, fn)):
                    shutil.copy(os.path.join(src, fn), d + "/_seeded/" + x + "/" + fn)
        rc1, out1 = sh([PY, pat + "/_seeded/" + x + "/demo.py"], pat, env(pat), timeout=1200)
        rc0, out0 = sh([PY, clean + "/_seeded/" + x + "/demo.py"], clean, env(clean), timeout=1200)
        meta["demo_with_patch_exit"] = rc1; meta["demo_without_patch_exit"] = rc0
        meta["ran"].append("demo.py on patched copy: exit %d; on clean copy: exit %d" % (rc1, rc0))
        meta["demo_tail_with_patch"] = out1.strip()[-600:]
        caught = {}
        for p in (props or [prop]):
            if not os.path.exists(os.path.join(VERIF, "rtm", "props", p.lower() + ".py")):
                caught[p] = "no check yet"; continue
            ev = os.path.join(VERIF, "evidence", p + ".json")
            saved = open(ev).read() if os.path.exists(ev) else None
            t0 = time.time()
            rc, out = sh([os.path.join(VERIF, "check"), p, "--tier", tier], VERIF, {"VERIF_REPO": pat}, timeout=7200)
            if saved is not None: open(ev, "w").write(saved)
            viol = [l for l in out.splitlines() if l.startswith("VIOLATION")]
            mons = sorted(set(re.findall(r"monitor=(\S+)", out)))
            caught[p] = {"exit": rc, "violations": len(viol), "monitors": mons, "wall_s": round(time.time() - t0, 1), "tier": tier}
            meta["ran"].append("./check %s --tier %s with VERIF_REPO=<patched copy>: exit %d, monitors fired: %s" % (p, tier, rc, ",".join(mons)))
            shutil.rmtree(os.path.join(VERIF, "replays", p), ignore_errors=True)
        meta["check_results"] = caught
        if src != dst:
            os.makedirs(dst, exist_ok=True)
            for f in os.listdir(src):
                if os.path.isfile(os.path.join(src, f)) and f != "meta.json":
                    shutil.copy(os.path.join(src, f), os.path.join(dst, f))
        readme = open(os.path.join(dst, "README.md")).read() if os.path.exists(os.path.join(dst, "README.md")) else ""
        meta["needs_to_manifest"] = readme[:1500]
        old = {}
        mp = os.path.join(dst, "meta.json")
        if os.path.exists(mp):
            old = json.load(open(mp))
        old.update(meta)
        json.dump(old, open(mp, "w"), indent=1)
        ok_demo = (rc1 != 0 and rc0 == 0)
        print("%s-%s applies=%s suite=%s demo(with/without)=%s/%s valid_seed=%s checks=%s" % (
            prop, x, meta["applies_to_current_tree"], meta.get("suite_with_patch"), rc1, rc0, ok_demo,
            {k: (v if isinstance(v, str) else ("CAUGHT" if v["exit"] == 1 and v["violations"] else "MISSED exit=%d" % v["exit"]) + " " + ",".join(v["monitors"])[:80]) for k, v in caught.items()}))
    finally:
        shutil.rmtree(scratch, ignore_errors=True)

main()
