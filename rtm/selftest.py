"""
Bring-up tooling (not a registered check): run a check against scratch copies of
the repository with one planted break each and demand a VIOLATION.

    /venv/bin/python -m rtm.selftest C02 [--tier quick] [patch ...]

Patches live in mutants/<PROP>/*.patch (unified diffs relative to the repo root)
or seeded/<id>/patch.diff.
"""
import glob, os, shutil, subprocess, sys, tempfile, time, json

VERIF = os.path.dirname(os.path.dirname(os.path.abspath(__file__)))
REPO = os.environ.get("VERIF_REPO", "/repo")

def run_one(prop, patch, tier, extra_env=None):
    scratch = tempfile.mkdtemp(prefix="verif-mut-")
    try:
        subprocess.run(["rsync", "-a", "--exclude", ".git", "--exclude", "__pycache__", REPO + "/", scratch + "/repo/"], check=True)
        if patch:
            r = subprocess.run(["patch", "-p1", "-s", "-i", os.path.abspath(patch)], cwd=scratch + "/repo", capture_output=True, text=True)
            if r.returncode != 0:
                return "PATCH-FAILED", r.stdout + r.stderr, 0.0
        env = dict(os.environ, VERIF_REPO=scratch + "/repo")
        env.update(extra_env or {})
        t0 = time.time()
        r = subprocess.run([os.path.join(VERIF, "check"), prop, "--tier", tier], cwd=VERIF, env=env, capture_output=True, text=True)
        dt = time.time() - t0
        out = r.stdout + r.stderr
        if r.returncode == 1 and "VIOLATION property=%s" % prop in out:
            return "CAUGHT", out, dt
        if r.returncode == 0:
            return "MISSED", out, dt
        return "EXIT-%d" % r.returncode, out, dt
    finally:
        shutil.rmtree(scratch, ignore_errors=True)

def main():
    args = sys.argv[1:]
    tier = "quick"
    if "--tier" in args:
        i = args.index("--tier"); tier = args[i+1]; del args[i:i+2]
    verbose = "-v" in args
    if verbose: args.remove("-v")
    prop = args[0].upper()
    patches = args[1:] or sorted(glob.glob(os.path.join(VERIF, "mutants", prop, "*.patch")))
    # keep the replays/evidence of the real tree intact
    ev = os.path.join(VERIF, "evidence", prop + ".json")
    saved = open(ev).read() if os.path.exists(ev) else None
    results = []
    for p in patches:
        status, out, dt = run_one(prop, p, tier)
        first = [l for l in out.splitlines() if l.startswith(("VIOLATION", "  monitor", "INCONCLUSIVE"))][:3]
        print("%-14s %-60s %5.1fs %s" % (status, os.path.relpath(p, VERIF), dt, " | ".join(x[:160] for x in first[:2])))
        if verbose or status not in ("CAUGHT",):
            print("\n".join(l[:200] for l in out.splitlines() if not l.startswith("KNOWN-FINDING"))[-1500:])
        results.append((p, status))
    if saved is not None:
        open(ev, "w").write(saved)
    shutil.rmtree(os.path.join(VERIF, "replays", prop), ignore_errors=True)
    bad = [p for p, s in results if s != "CAUGHT"]
    print("caught %d/%d" % (len(results) - len(bad), len(results)))
    return 1 if bad else 0

if __name__ == "__main__":
    sys.exit(main())
