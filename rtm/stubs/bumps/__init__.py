"""Minimal stand-in for the bumps package (only bumps.parameter is used by sasmodels.bumps_model)."""
