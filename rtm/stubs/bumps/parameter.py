"""Minimal bumps.parameter: Parameter.default(value, name=, limits=) boxes a value; Reference is unused here."""


class Parameter(object):
    def __init__(self, value=0.0, name=None, limits=(-float("inf"), float("inf"))):
        self.value, self.name, self.limits = value, name, limits

    @classmethod
    def default(cls, value, **kw):
        if isinstance(value, Parameter):
            return value
        return cls(value, **kw)


class Reference(object):
    def __init__(self, obj, attr, name=None):
        self.obj, self.attr, self.name = obj, attr, name

    @property
    def value(self):
        return getattr(self.obj, self.attr)
