"""
Worker: executes a shard of cases of one property against the real code and
streams one JSON line per event to the output file.

    python -m rtm.worker C02 shard.json out.jsonl
"""
import json
import os
import sys
import time
import traceback

from rtm import core

core.setup_paths()


def main():
    prop, shard_path, out_path = sys.argv[1:4]
    with open(shard_path) as f:
        shard = json.load(f)
    out = open(out_path, "a", buffering=1)

    def emit(obj):
        out.write(json.dumps(core.jsonable(obj)) + "\n")
        out.flush()

    mod = core.load_prop(prop)
    try:
        import sasmodels
        emit({"hello": os.getpid(), "sasmodels": os.path.dirname(sasmodels.__file__)})
        if hasattr(mod, "worker_init"):
            mod.worker_init(shard.get("tier", "quick"), shard.get("seed", 0))
    except Exception as exc:  # pragma: no cover
        emit({"fatal": "worker_init: %r" % (exc,), "tb": traceback.format_exc(),
              "origin": core.exception_origin(exc)})
        return 3

    for case in shard["cases"]:
        emit({"start": case["id"]})
        rec = core.Recorder(case)
        t0 = time.monotonic()
        try:
            mod.run_case(case, rec)
        except Exception as exc:
            origin = core.exception_origin(exc)
            tb = traceback.format_exc()
            if origin == "repo":
                rec.check("no_unexpected_exception", False,
                          {"exception": repr(exc), "traceback": tb[-3000:]})
            else:
                emit({"harness_error": case["id"], "exception": repr(exc), "tb": tb[-4000:]})
        res = rec.to_json()
        res["wall_s"] = time.monotonic() - t0
        emit({"result": res})
    if hasattr(mod, "worker_done"):
        try:
            extra = mod.worker_done()
            if extra:
                emit({"extra": extra})
        except Exception as exc:  # pragma: no cover
            emit({"harness_error": "worker_done", "exception": repr(exc),
                  "tb": traceback.format_exc()[-4000:]})
    emit({"bye": os.getpid()})
    return 0


if __name__ == "__main__":
    sys.exit(main())
