"""
Orchestrator.

    ./check C02 --tier quick
    ./check C02 --tier thorough
    ./check C02 --replay replays/C02/<case>.json

Exit status: 0 held on what was observed (known findings are printed as
KNOWN-FINDING lines), 1 violation (a VIOLATION line per witness), 2 inconclusive.
"""
from __future__ import annotations

import argparse
import atexit
import json
import os
import shutil
import signal
import subprocess
import sys
import tempfile
import time

from rtm import core

core.setup_paths()

from rtm import native  # noqa: E402

MAX_WORKERS = int(os.environ.get("VERIF_JOBS", "16"))


def load_known():
    path = os.path.join(core.VERIF, "known_findings.json")
    if not os.path.exists(path):
        return []
    with open(path) as f:
        return json.load(f).get("findings", [])


def shard_cases(cases, nworkers):
    """Keep groups together; longest-processing-time assignment by group size."""
    groups = {}
    for c in cases:
        groups.setdefault(c.get("group", c["id"]), []).append(c)
    bins = [[] for _ in range(max(1, min(nworkers, len(groups))))]
    loads = [0.0]*len(bins)
    for g, cs in sorted(groups.items(), key=lambda kv: -sum(c.get("cost", 1.0) for c in kv[1])):
        k = loads.index(min(loads))
        bins[k].extend(cs)
        loads[k] += sum(c.get("cost", 1.0) for c in cs)
    return [b for b in bins if b]


class Run:
    def __init__(self, prop, tier, seed, keep=False):
        self.prop, self.tier, self.seed = prop, tier, seed
        self.mod = core.load_prop(prop)
        self.scratch = tempfile.mkdtemp(prefix="verif-%s-" % prop)
        if not keep:
            atexit.register(shutil.rmtree, self.scratch, True)
        shutil.rmtree(os.path.join(core.VERIF, "replays", prop), ignore_errors=True)
        self.results = []
        self.violations = []      # (case, violation dict)
        self.inconclusive = []
        self.extras = []
        self.san = {"workers": 0, "reports": 0, "cases": 0}
        self.timer = core.Timer()

    # ------------------------------------------------------------------
    def worker_env(self, tag, lane):
        env = dict(os.environ)
        wdir = os.path.join(self.scratch, tag)
        for sub in ("dll", "tmp", "home"):
            os.makedirs(os.path.join(wdir, sub), exist_ok=True)
        env.update({
            "SAS_DLL_PATH": os.path.join(wdir, "dll"),
            "TMPDIR": os.path.join(wdir, "tmp"),
            "HOME": os.path.join(wdir, "home"),
            "RTM_SCRATCH": wdir,
            "RTM_LANE": lane,
            "VERIF_REPO": core.REPO,
            "PYTHONPATH": core.REPO + os.pathsep + core.VERIF,
            "SAS_OPENCL": "none",
            "PYTHONHASHSEED": "0",
            "OMP_NUM_THREADS": "1", "OPENBLAS_NUM_THREADS": "1", "MKL_NUM_THREADS": "1",
            "PYTHONDONTWRITEBYTECODE": "1",
        })
        env.pop("SAS_OPENMP", None)
        if lane == "asan":
            senv = native.asan_env(self.scratch, tag)
            if senv is None:
                return None
            env.update(senv)
        return env

    def launch(self, tag, lane, cases):
        env = self.worker_env(tag, lane)
        if env is None:
            self.inconclusive.append("sanitizer runtime not found")
            return None
        shard = os.path.join(self.scratch, tag + ".shard.json")
        out = os.path.join(self.scratch, tag + ".out.jsonl")
        with open(shard, "w") as f:
            json.dump({"cases": cases, "tier": self.tier, "seed": self.seed}, f)
        log = open(os.path.join(self.scratch, tag + ".log"), "w")
        proc = subprocess.Popen([core.PY, "-m", "rtm.worker", self.prop, shard, out],
                                cwd=core.VERIF, env=env, stdout=log, stderr=subprocess.STDOUT,
                                start_new_session=True)
        return {"proc": proc, "tag": tag, "lane": lane, "cases": cases, "out": out,
                "log": log.name, "attempt": 0, "t0": time.monotonic()}

    def read_out(self, w):
        done, started, fatal, herr = [], None, None, []
        if os.path.exists(w["out"]):
            with open(w["out"]) as f:
                for line in f:
                    try:
                        ev = json.loads(line)
                    except ValueError:
                        continue
                    if "start" in ev:
                        started = ev["start"]
                    elif "result" in ev:
                        done.append(ev["result"])
                        started = None
                    elif "fatal" in ev:
                        fatal = ev
                    elif "harness_error" in ev:
                        herr.append(ev)
                    elif "extra" in ev:
                        self.extras.append(ev["extra"])
        return done, started, fatal, herr

    def run_workers(self, cases, watchdog_s):
        by_lane = {}
        for c in cases:
            by_lane.setdefault(c.get("lane", "plain"), []).append(c)
        pending = []
        for lane, cs in by_lane.items():
            n = MAX_WORKERS if lane == "plain" else max(2, MAX_WORKERS//2)
            for k, shard in enumerate(shard_cases(cs, n)):
                pending.append(("%s%02d" % (lane[0], k), lane, shard))
        running = []
        case_by_id = {c["id"]: c for c in cases}
        deadline = time.monotonic() + watchdog_s
        seq = 0
        while pending or running:
            while pending and len(running) < MAX_WORKERS:
                tag, lane, shard = pending.pop(0)
                w = self.launch("%s_%d" % (tag, seq), lane, shard)
                seq += 1
                if w:
                    w["basetag"] = tag
                    running.append(w)
            time.sleep(0.05)
            now = time.monotonic()
            for w in list(running):
                rc = w["proc"].poll()
                if rc is None:
                    if now > deadline:
                        try:
                            os.killpg(w["proc"].pid, signal.SIGKILL)
                        except OSError:
                            pass
                        w["proc"].wait()
                        self.inconclusive.append("watchdog fired on worker %s" % w["tag"])
                        running.remove(w)
                        self.collect(w, None, case_by_id, timed_out=True)
                    continue
                running.remove(w)
                rest = self.collect(w, rc, case_by_id)
                if rest:
                    pending.append((w["basetag"], w["lane"], rest))

    def collect(self, w, rc, case_by_id, timed_out=False):
        done, started, fatal, herr = self.read_out(w)
        for r in done:
            r["lane"] = w["lane"]
            self.results.append(r)
        for h in herr:
            self.inconclusive.append("harness error in %s: %s" % (h.get("harness_error"), h.get("exception")))
            sys.stderr.write(h.get("tb", "") + "\n")
        if w["lane"] == "asan":
            self.san["workers"] += 1
            self.san["cases"] += len(done)
        if timed_out:
            return None
        if fatal:
            self.inconclusive.append("worker %s could not start: %s" % (w["tag"], fatal.get("fatal")))
            sys.stderr.write(fatal.get("tb", "") + "\n")
            return None
        if rc == 0:
            return None
        # the worker died while running case `started`
        reports = native.sanitizer_reports(self.scratch, w["tag"]) if w["lane"] == "asan" else []
        logtail = ""
        try:
            logtail = open(w["log"], errors="replace").read()[-3000:]
        except OSError:
            pass
        ids = [c["id"] for c in w["cases"]]
        if started is None:
            self.inconclusive.append("worker %s exited %s outside a case: %s" % (w["tag"], rc, logtail[-500:]))
            return None
        case = case_by_id[started]
        if reports:
            self.san["reports"] += len(reports)
            seen = set()
            for rep in reports:
                k = (rep["kind"].split(":")[1] if ":" in rep["kind"] else rep["kind"], tuple(rep["frames"][:3]))
                if k in seen:
                    continue
                seen.add(k)
                self.violations.append((case, {"monitor": "sanitizer", "detail": rep, "key": None}))
        elif rc is not None and (rc < 0 or rc in (86, 134, 135, 139)):
            self.violations.append((case, {"monitor": "process_survives",
                                           "detail": {"exit": rc, "log": logtail}, "key": None}))
        else:
            self.inconclusive.append("worker %s exited %s during %s: %s" % (w["tag"], rc, started, logtail[-800:]))
        rest = w["cases"][ids.index(started)+1:]
        return rest

    # ------------------------------------------------------------------
    def finish(self, cases):
        mod = self.mod
        case_by_id = {c["id"]: c for c in cases}
        monitors, buckets, counters = {}, {}, {}
        shapes = set()
        skipped = 0
        nevals = 0
        for r in self.results:
            for m, (n, f) in r["monitors"].items():
                t = monitors.setdefault(m, [0, 0])
                t[0] += n
                t[1] += f
            for b in r["buckets"]:
                buckets[b] = buckets.get(b, 0) + 1
            for k, v in r["counters"].items():
                counters[k] = counters.get(k, 0) + v
            if r.get("skipped"):
                skipped += 1
            for why in r.get("inconclusive", []):
                self.inconclusive.append("%s: %s" % (r["id"], why))
            shapes.update(r.get("shapes", []))
            nevals += max(1, r.get("evaluations", 0))
            for v in r["violations"]:
                self.violations.append((case_by_id.get(r["id"], {"id": r["id"]}), dict(v, observed=r.get("observed"))))
        # missing results
        got = {r["id"] for r in self.results}
        crashed = {c["id"] for c, _ in self.violations}
        missing = [c["id"] for c in cases if c["id"] not in got and c["id"] not in crashed]
        if missing:
            self.inconclusive.append("%d cases produced no result (first: %s)" % (len(missing), missing[0]))
        for m in getattr(mod, "REQUIRED_MONITORS", []):
            if monitors.get(m, [0, 0])[0] == 0:
                self.inconclusive.append("deciding monitor %s was never evaluated" % m)
        req = getattr(mod, "REQUIRED_BUCKETS", {}).get(self.tier, [])
        for b in req:
            if buckets.get(b, 0) == 0:
                self.inconclusive.append("promised bucket %s received no case" % b)

        # classify violations against known findings
        known = [k for k in load_known() if k.get("property") == self.prop]
        known_open = {k["key"]: k for k in known if k.get("status") == "known"}
        classify = getattr(mod, "classify", None)
        new, seen_known = [], {}
        for case, v in self.violations:
            key = v.get("key")
            if key is None and classify is not None:
                try:
                    key = classify(case, v)
                except Exception:
                    key = None
            v["key"] = key
            if key is not None and key in known_open:
                seen_known.setdefault(key, []).append((case, v))
            else:
                new.append((case, v))

        lines = []
        for key, items in sorted(seen_known.items()):
            lines.append("KNOWN-FINDING: property=%s %s [%s; %d witness(es) this run]"
                         % (self.prop, known_open[key]["what_fails"], key, len(items)))
        replay_paths = []
        if new:
            rdir = os.path.join(core.VERIF, "replays", self.prop)
            os.makedirs(rdir, exist_ok=True)
            shown = set()
            for case, v in new:
                name = "%s_%s.json" % (str(case.get("id")).replace("/", "_")[:80], v["monitor"][:40])
                path = os.path.join(rdir, name)
                if path in shown:
                    continue
                shown.add(path)
                with open(path, "w") as f:
                    json.dump(core.jsonable({"property": self.prop, "tier": self.tier, "seed": self.seed,
                                             "case": case, "violation": v}), f, indent=1)
                replay_paths.append(path)
                if len(shown) <= 6:
                    lines.append("VIOLATION property=%s replay=%s" % (self.prop, os.path.relpath(path, core.VERIF)))
                    lines.append("  monitor=%s key=%s detail=%s" % (v["monitor"], v.get("key"),
                                                                   json.dumps(v.get("detail"))[:300]))
            if len(shown) > 6:
                lines.append("  ... %d more violation witnesses under replays/%s" % (len(shown)-6, self.prop))

        status = "violated" if new else ("inconclusive" if self.inconclusive else "held")
        for r in self.inconclusive[:10]:
            lines.append("INCONCLUSIVE property=%s reason=%s" % (self.prop, r))

        # evidence
        samples = []
        for r in self.results[:3] + self.results[len(self.results)//2:len(self.results)//2+2]:
            c = case_by_id.get(r["id"], {})
            samples.append({"case": c, "observed": r.get("observed"), "monitors": r.get("monitors"),
                            "buckets": r.get("buckets")})
        coverage = {
            "evaluations": nevals,
            "cases": len(self.results),
            "distinct_nontrivial": len(shapes),
            "rule": getattr(mod, "RULE", ""),
            "samples": samples,
            "monitors": {m: {"evaluations": n, "failures": f} for m, (n, f) in sorted(monitors.items())},
            "buckets": dict(sorted(buckets.items())),
            "counters": dict(sorted(counters.items())),
            "cases_skipped": skipped,
            "sanitizer": self.san,
            "known_findings_seen": {k: len(v) for k, v in seen_known.items()},
            "inconclusive_reasons": self.inconclusive,
            "verdict": status,
            "slowest_cases": [[r["id"], round(r.get("wall_s", 0), 2)] for r in
                              sorted(self.results, key=lambda r: -r.get("wall_s", 0))[:8]],
            "exhaustive": bool(getattr(mod, "EXHAUSTIVE", False)),
        }
        for ex in self.extras:
            for k, v in ex.items():
                if isinstance(v, (int, float)) and isinstance(coverage.get(k), (int, float)):
                    coverage[k] += v
                elif isinstance(v, dict) and isinstance(coverage.get(k), dict):
                    for kk, vv in v.items():
                        if isinstance(vv, (int, float)):
                            coverage[k][kk] = coverage[k].get(kk, 0) + vv
                        else:
                            coverage[k][kk] = vv
                elif isinstance(v, list) and isinstance(coverage.get(k), list):
                    coverage[k] = (coverage[k] + v)[:50]
                else:
                    coverage[k] = v
        if hasattr(mod, "coverage_extra"):
            try:
                coverage.update(mod.coverage_extra(self.results, coverage))
            except Exception as exc:  # pragma: no cover
                coverage["coverage_extra_error"] = repr(exc)
        ev = {
            "property_id": self.prop, "tier": self.tier, "seed": self.seed,
            "level": getattr(mod, "LEVEL", "exploration"),
            "coverage": coverage,
            "assumptions": getattr(mod, "ASSUMPTIONS", []),
            "wall_s": round(self.timer(), 3),
            "violations": len(new),
        }
        os.makedirs(os.path.join(core.VERIF, "evidence"), exist_ok=True)
        with open(os.path.join(core.VERIF, "evidence", self.prop + ".json"), "w") as f:
            json.dump(core.jsonable(ev), f, indent=1, sort_keys=False)
            f.write("\n")

        print("%s tier=%s seed=%d cases=%d distinct_nontrivial=%d monitors=%s wall=%.1fs verdict=%s"
              % (self.prop, self.tier, self.seed, len(self.results), len(shapes),
                 {m: v[0] for m, v in monitors.items()}, self.timer(), status))
        for l in lines:
            print(l)
        return {"held": 0, "violated": 1, "inconclusive": 2}[status]


def replay(prop, path):
    mod = core.load_prop(prop)
    with open(path) as f:
        rp = json.load(f)
    case = rp["case"]
    scratch = tempfile.mkdtemp(prefix="verif-replay-")
    atexit.register(shutil.rmtree, scratch, True)
    os.environ.setdefault("SAS_DLL_PATH", os.path.join(scratch, "dll"))
    os.environ["TMPDIR"] = scratch
    os.environ["RTM_SCRATCH"] = scratch
    tempfile.tempdir = scratch
    if hasattr(mod, "worker_init"):
        mod.worker_init(rp.get("tier", "quick"), rp.get("seed", 0))
    rec = core.Recorder(case)
    try:
        mod.run_case(case, rec)
    except Exception as exc:
        import traceback
        rec.check("no_unexpected_exception", False, {"exception": repr(exc),
                                                     "traceback": traceback.format_exc()[-3000:]})
    print(json.dumps(rec.to_json(), indent=1)[:20000])
    if rec.violations:
        print("VIOLATION property=%s replay=%s" % (prop, path))
        return 1
    return 0


def main(argv=None):
    ap = argparse.ArgumentParser()
    ap.add_argument("prop")
    ap.add_argument("--tier", default=os.environ.get("VERIF_TIER", "quick"), choices=["quick", "thorough"])
    ap.add_argument("--replay")
    ap.add_argument("--keep", action="store_true")
    ap.add_argument("--only", help="substring filter on case ids (debugging)")
    args = ap.parse_args(argv)
    prop = args.prop.upper()
    seed = int(os.environ.get("VERIF_SEED", "0"))
    if args.replay:
        return replay(prop, args.replay)
    run = Run(prop, args.tier, seed, keep=args.keep)
    # the orchestrator itself may need scratch space for generators
    os.environ["RTM_SCRATCH"] = os.path.join(run.scratch, "main")
    os.makedirs(os.environ["RTM_SCRATCH"], exist_ok=True)
    os.environ.setdefault("SAS_DLL_PATH", os.path.join(run.scratch, "main", "dll"))
    os.environ.setdefault("SAS_OPENCL", "none")
    cases = run.mod.gen_cases(args.tier, seed)
    if args.only:
        cases = [c for c in cases if args.only in c["id"]]
    ids = [c["id"] for c in cases]
    assert len(ids) == len(set(ids)), "duplicate case ids"
    watchdog = float(getattr(run.mod, "WATCHDOG_S", {}).get(args.tier, 1800 if args.tier == "quick" else 6*3600))
    if hasattr(run.mod, "orchestrate"):
        run.mod.orchestrate(run, cases)
    else:
        run.run_workers(cases, watchdog)
    return run.finish(cases)


if __name__ == "__main__":
    sys.exit(main())
