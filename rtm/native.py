"""
Native-code helpers: sanitizer-lane environment, sanitizer log parsing, and the
raw library (the model's own single-particle functions exported through a
wrapper appended to the model's generated C source).
"""
from __future__ import annotations

import ctypes as ct
import glob
import os
import re
import subprocess

import numpy as np


def _clang_rt():
    try:
        out = subprocess.run(["clang", "-print-file-name=libclang_rt.asan-x86_64.so"],
                             capture_output=True, text=True, timeout=30).stdout.strip()
    except Exception:
        return None
    return out if out and os.path.exists(out) else None


def asan_env(scratch, tag):
    """Environment for a worker of the sanitizer lane (ASan+UBSan, one family)."""
    rt = _clang_rt()
    if rt is None:
        return None
    logdir = os.path.join(scratch, "asan")
    os.makedirs(logdir, exist_ok=True)
    env = {
        "CC": "clang",
        "CFLAGS": "-std=c99 -O1 -g -fno-omit-frame-pointer "
                  "-fsanitize=address,undefined -fno-sanitize-recover=undefined",
        "LDFLAGS": "-shared-libsan",
        "LD_PRELOAD": rt,
        "ASAN_OPTIONS": "detect_leaks=0:halt_on_error=1:abort_on_error=0:"
                        "exitcode=86:log_path=%s" % os.path.join(logdir, tag),
        "UBSAN_OPTIONS": "print_stacktrace=1:halt_on_error=1:exitcode=86:"
                         "log_path=%s" % os.path.join(logdir, tag),
        "ASAN_SYMBOLIZER_PATH": "/usr/bin/llvm-symbolizer-14",
        "RTM_LANE": "asan",
    }
    return env


_REPORT = re.compile(r"(ERROR: AddressSanitizer: [^\n]*|[^\n]*runtime error: [^\n]*)")


def sanitizer_reports(scratch, tag):
    """Parse sanitizer logs of one worker: list of {kind, frames}."""
    reports = []
    for path in sorted(glob.glob(os.path.join(scratch, "asan", tag + ".*"))):
        try:
            text = open(path, errors="replace").read()
        except OSError:
            continue
        for m in _REPORT.finditer(text):
            tail = text[m.end():m.end()+4000]
            frames = re.findall(r"#\d+ 0x[0-9a-f]+ in (\S+) ([^\n]*)", tail)[:6]
            reports.append({"kind": m.group(1).strip()[:300],
                            "frames": [f[0] + " " + re.sub(r":\d+(:\d+)?", "", f[1])
                                       for f in frames],
                            "log": text[max(0, m.start()-200):m.end()+1500]})
    return reports


# ---------------------------------------------------------------------------
# Raw library
# ---------------------------------------------------------------------------

class RawLib:
    """The model's own single-particle functions, compiled from the model's C
    text with exported wrappers in the same translation unit.  Does not use
    kernel_iq.c entry points, kernel.py, details.py or kerneldll.py."""

    def __init__(self, model_info, build_dir, cc=None, cflags=None, ldflags=None):
        from sasmodels import generate
        self.info = info = model_info
        pars = info.parameters
        # Kernel parameters in table order; the plugin contract: the C functions
        # take the non-orientation, non-magnetic parameters in table order,
        # vector parameters as pointers.
        self.kpars = [p for p in pars.kernel_parameters]
        self.iq_pars = [p for p in self.kpars if p.type not in ("orientation", "magnetic")]
        self.vol_pars = [p for p in self.kpars if p.type == "volume"]
        # layout of the flat double vector handed to the wrappers
        self.slots = {}
        off = 0
        for p in self.iq_pars:
            self.slots[p.id] = (off, p.length)
            off += p.length
        self.nflat = max(off, 1)
        self.have_Fq = bool(info.have_Fq)
        self.has_iqac = callable(info.Iqac) or isinstance(info.Iqac, str) or bool(getattr(info, "Iqac", None))
        self.has_iqabc = bool(getattr(info, "Iqabc", None))
        self.nmodes = len(info.radius_effective_modes or [])
        src = generate.make_source(info)["dll"]
        self._defs = {fn: bool(re.search(r"(^|\s)double\s+%s\s*\(" % fn, src))
                      for fn in ("form_volume", "shell_volume", "radius_effective", "Iqac", "Iqabc", "Iq", "Iqxy")}
        self._defs["Fq"] = bool(re.search(r"(^|\s)void\s+Fq\s*\(", src))
        # double precision build: the library code selects its branches on FLOAT_SIZE
        src = "#define FLOAT_SIZE 8\n" + src + "\n" + self._wrapper()
        os.makedirs(build_dir, exist_ok=True)
        from sasmodels.generate import tag_source
        base = os.path.join(build_dir, "raw_%s_%s" % (info.id, tag_source(src)))
        cfile, sofile = base + ".c", base + ".so"
        if not os.path.exists(sofile):
            with open(cfile, "w") as f:
                f.write(src)
            cc = cc or os.environ.get("RTM_RAW_CC", "cc")
            cflags = cflags or os.environ.get("RTM_RAW_CFLAGS", "-std=c99 -O2")
            ldflags = ldflags or os.environ.get("RTM_RAW_LDFLAGS", "")
            cmd = [cc] + cflags.split() + ldflags.split() + ["-fPIC", "-shared", "-w", cfile,
                                                             "-o", sofile + ".tmp%d" % os.getpid(), "-lm"]
            res = subprocess.run(cmd, capture_output=True, text=True)
            if res.returncode != 0:
                raise RuntimeError("raw library build failed for %s:\n%s" % (info.id, res.stderr[-3000:]))
            os.replace(sofile + ".tmp%d" % os.getpid(), sofile)
            os.unlink(cfile)
        self.lib = ct.CDLL(sofile)
        D, P = ct.c_double, ct.POINTER(ct.c_double)
        self.lib.rtm_Iq.restype = D
        self.lib.rtm_Iq.argtypes = [D, P]
        self.lib.rtm_Fq.restype = None
        self.lib.rtm_Fq.argtypes = [D, P, P, P]
        self.lib.rtm_form_volume.restype = D
        self.lib.rtm_form_volume.argtypes = [P]
        self.lib.rtm_shell_volume.restype = D
        self.lib.rtm_shell_volume.argtypes = [P]
        self.lib.rtm_radius_effective.restype = D
        self.lib.rtm_radius_effective.argtypes = [ct.c_int, P]
        self.lib.rtm_valid.restype = ct.c_int
        self.lib.rtm_valid.argtypes = [P]
        self.lib.rtm_Iqac.restype = D
        self.lib.rtm_Iqac.argtypes = [D, D, P]
        self.lib.rtm_Iqabc.restype = D
        self.lib.rtm_Iqabc.argtypes = [D, D, D, P]
        self.lib.rtm_Iqxy.restype = D
        self.lib.rtm_Iqxy.argtypes = [D, D, P]

    # -- C text ---------------------------------------------------------
    def _args(self, plist):
        out = []
        for p in plist:
            off, n = self.slots[p.id]
            out.append("(double*)(p+%d)" % off if n > 1 else "p[%d]" % off)
        return ", ".join(out)

    def _wrapper(self):
        info = self.info
        iq_args = self._args(self.iq_pars)
        vol_args = self._args(self.vol_pars)
        sep = ", " if iq_args else ""
        lines = ["", "/* ---- rtm raw wrapper ---- */"]
        # Iq / Fq
        if self.have_Fq:
            lines.append("void rtm_Fq(double q, double *F1, double *F2, const double *p)"
                         " { Fq(q, F1, F2%s%s); }" % (sep, iq_args))
            lines.append("double rtm_Iq(double q, const double *p)"
                         " { double F1=0, F2=0; Fq(q, &F1, &F2%s%s); return F2; }" % (sep, iq_args))
        else:
            lines.append("double rtm_Iq(double q, const double *p) { return Iq(q%s%s); }" % (sep, iq_args))
            lines.append("void rtm_Fq(double q, double *F1, double *F2, const double *p)"
                         " { *F1 = 0.0/0.0; *F2 = Iq(q%s%s); }" % (sep, iq_args))
        # volumes
        has_form = self._defs["form_volume"] and bool(self.vol_pars)
        has_shell = self._defs["shell_volume"] and bool(self.vol_pars)
        if has_form:
            lines.append("double rtm_form_volume(const double *p) { return form_volume(%s); }" % vol_args)
        else:
            lines.append("double rtm_form_volume(const double *p) { return 1.0; }")
        if has_shell:
            lines.append("double rtm_shell_volume(const double *p) { return shell_volume(%s); }" % vol_args)
        else:
            lines.append("double rtm_shell_volume(const double *p) { return rtm_form_volume(p); }")
        if self.nmodes and self._defs["radius_effective"]:
            vsep = ", " if vol_args else ""
            lines.append("double rtm_radius_effective(int mode, const double *p)"
                         " { return radius_effective(mode%s%s); }" % (vsep, vol_args))
        else:
            lines.append("double rtm_radius_effective(int mode, const double *p) { return 0.0; }")
        # validity: the model's own text over locals named as the parameters
        valid = getattr(info, "valid", "") or ""
        decl = []
        for p in self.iq_pars:
            off, n = self.slots[p.id]
            if n > 1:
                decl.append("const double *%s = p+%d; (void)%s;" % (p.id, off, p.id))
            else:
                decl.append("const double %s = p[%d]; (void)%s;" % (p.id, off, p.id))
        if valid.strip():
            lines.append("int rtm_valid(const double *p) { %s return (%s) ? 1 : 0; }"
                         % (" ".join(decl), valid))
        else:
            lines.append("int rtm_valid(const double *p) { return 1; }")
        # oriented functions
        if self._defs["Iqac"]:
            lines.append("double rtm_Iqac(double qab, double qc, const double *p)"
                         " { return Iqac(qab, qc%s%s); }" % (sep, iq_args))
        else:
            lines.append("double rtm_Iqac(double qab, double qc, const double *p) { return 0.0/0.0; }")
        if self._defs["Iqabc"]:
            lines.append("double rtm_Iqabc(double qa, double qb, double qc, const double *p)"
                         " { return Iqabc(qa, qb, qc%s%s); }" % (sep, iq_args))
        else:
            lines.append("double rtm_Iqabc(double qa, double qb, double qc, const double *p) { return 0.0/0.0; }")
        if self._defs.get("Iqxy") and not [p for p in self.kpars if p.type == "orientation"]:
            lines.append("double rtm_Iqxy(double qx, double qy, const double *p)"
                         " { return Iqxy(qx, qy%s%s); }" % (sep, iq_args))
            self.has_iqxy = True
        else:
            lines.append("double rtm_Iqxy(double qx, double qy, const double *p) { return 0.0/0.0; }")
            self.has_iqxy = False
        return "\n".join(lines) + "\n"

    # -- calling -------------------------------------------------------
    def flat(self, point):
        """point: dict parameter id (expanded names for vectors: thick1...) -> value."""
        v = np.zeros(self.nflat, dtype=np.float64)
        for p in self.iq_pars:
            off, n = self.slots[p.id]
            if n > 1:
                for k in range(n):
                    v[off + k] = point[p.id + str(k+1)]
            else:
                v[off] = point[p.id]
        return v

    @staticmethod
    def _ptr(v):
        return v.ctypes.data_as(ct.POINTER(ct.c_double))

    def Iq(self, q, v):
        return self.lib.rtm_Iq(float(q), self._ptr(v))

    def Fq(self, q, v):
        F1, F2 = ct.c_double(0.0), ct.c_double(0.0)
        self.lib.rtm_Fq(float(q), ct.byref(F1), ct.byref(F2), self._ptr(v))
        return F1.value, F2.value

    def form_volume(self, v):
        return self.lib.rtm_form_volume(self._ptr(v))

    def shell_volume(self, v):
        return self.lib.rtm_shell_volume(self._ptr(v))

    def radius_effective(self, mode, v):
        return self.lib.rtm_radius_effective(int(mode), self._ptr(v))

    def valid(self, v):
        return bool(self.lib.rtm_valid(self._ptr(v)))

    def Iqac(self, qab, qc, v):
        return self.lib.rtm_Iqac(float(qab), float(qc), self._ptr(v))

    def Iqxy(self, qx, qy, v):
        return self.lib.rtm_Iqxy(float(qx), float(qy), self._ptr(v))

    def Iqabc(self, qa, qb, qc, v):
        return self.lib.rtm_Iqabc(float(qa), float(qb), float(qc), self._ptr(v))
