"""Run the repository's own test-suite in-process with the C02 contract switched on."""
import json
import os
import sys

from rtm import core
core.setup_paths()
from rtm.props import c02

out = sys.argv[1]
rec = core.Recorder({"id": "suite"})
c02.install_contract()
c02._state["current"] = rec
import pytest
os.chdir(core.REPO)
rc = pytest.main(["-q", "-p", "no:cacheprovider", "-x", "--timeout=900",
                  "sasmodels/direct_model.py", "sasmodels/sasview_model.py", "sasmodels/core.py",
                  "sasmodels/model_test.py", "sasmodels/resolution.py"])
c02._state["current"] = None
with open(out, "w") as f:
    json.dump(core.jsonable({"exit": int(rc), "monitors": rec.monitors, "violations": rec.violations,
                             "contract_evals": c02._state["contract_evals"]}), f)
