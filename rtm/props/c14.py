"""
C14 - amplitude outputs are mutually consistent for every form factor.

call_Fq / call_kernel on every model that reports the mean amplitude are
checked against the inequalities and identities of the statement.
"""
from __future__ import annotations

import math

import numpy as np

from rtm import core, sas

PROP = "C14"
LEVEL = "exploration"
RULE = ("26 amplitude models x parameter sets from each model's random generator (inside limits) x dispersity on/off "
        "(1-2 parameters, mesh sizes on both sides of the 100-point chunk boundary) x every effective-radius mode x q from "
        "1e-5/size to 20/size.  Distinct: hash of (model, mode, dispersed parameters with point counts, asymmetric "
        "shape flag).  Non-trivial: the parameter set is not the default one.")
ASSUMPTIONS = ["monodisperse spherically symmetric models: sphere, core_shell_sphere, fuzzy_sphere, core_multi_shell, "
               "onion, spherical_sld, vesicle, multilayer_vesicle",
               "q -> 0 equality is checked with error bound (q*size)^2"]
REQUIRED_MONITORS = ["F1sq_le_F2", "I_equals_scale_F2_over_V", "lowq_equality_mono", "spherical_equality_mono",
                     "volume_sphere_mode", "modes_positive_finite"]
REQUIRED_BUCKETS = {"quick": ["pd:off", "pd:on", "mesh>100", "mode:volume-sphere", "hollow", "lane:asan", "zero-default-length-switched-on", "mesh-crosses-validity-condition",
                              "after-product-built-with-this-form-factor", "special:lengths-exactly-equal",
                              "special:equal-lengths-with-equal-dispersity", "entry:2d-with-orientation-spread",
                              "cutoff>0:removes-mesh-points", "entry:DirectModel-cutoff-0", "reparameterised-form-factor", "entry:mono-switch"]}
REQUIRED_BUCKETS["thorough"] = REQUIRED_BUCKETS["quick"]
SPHERICAL = ["sphere", "core_shell_sphere", "fuzzy_sphere", "core_multi_shell", "onion", "spherical_sld", "vesicle",
             "multilayer_vesicle"]


def fq_models():
    return [m for m in sas.compiled_models() if sas.info(m).have_Fq]


def worker_init(tier, seed):
    sas.install_poison()


def gen_cases(tier, seed):
    n = 6 if tier == "quick" else 100
    cases = []
    for m in fq_models():
        for k in range(n):
            cases.append({"id": "%s/%03d" % (m, k), "model": m, "k": k, "seed": seed, "group": m, "lane": "plain"})
    # special shapes: two (or all) radii exactly equal - a shape with an extra symmetry is still a shape
    for m in fq_models():
        i_ = sas.info(m)
        if not i_.radius_effective_modes:
            continue
        lens = [p.name for p in i_.parameters.kernel_parameters if p.type == "volume" and p.length == 1 and p.units == "Ang"
                and "ratio" not in p.name]          # (some ratios are declared with a length unit)
        groups = [[a, b] for ia, a in enumerate(lens) for b in lens[ia + 1:]]
        rad = [a for a in lens if a.startswith("radius")]
        if len(rad) >= 3:
            groups.append(rad)
        cap = 4 if tier == "quick" else 1000
        rot = seed % max(len(groups), 1)
        chosen = (groups[rot:] + groups[:rot])[:cap]
        if len(rad) >= 3 and rad not in chosen:
            chosen.append(rad)
        for j, g in enumerate(chosen):
            for kk in ((0, 1) if tier == "quick" else range(6)):
                cases.append({"id": "%s/eq-%s-%d" % (m, "-".join(g), kk), "model": m, "k": 300 + 2*j + kk + (0 if kk < 2 else 100*kk), "seed": seed,
                              "group": "%s/eq%d" % (m, j), "lane": "plain", "equal": g})
    for j in range(len(REPARAMS)):
        for kk in range(2 if tier == "quick" else 20):
            cases.append({"id": "reparam/%d-%02d" % (j, kk), "kind": "reparam", "j": j, "k": kk, "seed": seed, "model": "reparam",
                          "group": "rp%d" % j, "lane": "plain"})
    for m in (["cylinder", "core_shell_parallelepiped", "hollow_cylinder", "vesicle"] if tier == "quick" else fq_models()):
        cases.append({"id": "asan/%s" % m, "model": m, "k": 1000, "seed": seed, "group": "asan-" + m, "lane": "asan", "cost": 4})
    return cases


REPARAMS = [
    ("ellipsoid", [["rp2", "Ang", 30.0, [0, np.inf], "volume", "polar"], ["re2", "Ang", 50.0, [0, np.inf], "volume", "equatorial"]],
     "radius_polar = rp2\nradius_equatorial = re2"),
    ("ellipsoid", [["vol", "Ang^3", 6.7e5, [0, np.inf], "volume", "particle volume"],
                   ["aspect", "", 2.0, [0.1, 10.0], "volume", "polar:equatorial"]],
     "re = cbrt(vol/(M_4PI_3*aspect))\nradius_equatorial = re\nradius_polar = aspect*re"),
    ("cylinder", [["diam", "Ang", 44.0, [0, np.inf], "volume", "diameter"], ["len2", "Ang", 300.0, [0, np.inf], "volume", "length"]],
     "radius = 0.5*diam\nlength = len2"),
    ("hollow_cylinder", [["outer", "Ang", 40.0, [0, np.inf], "volume", "outer radius"],
                         ["wall", "", 0.3, [0.0, 1.0], "volume", "wall fraction"], ["len2", "Ang", 200.0, [0, np.inf], "volume", ""]],
     "t_ = wall*outer\nthickness = t_\nradius = outer - t_\nlength = len2"),
]


def run_reparam(case, rec):
    """Form factors given other parameters (core.reparameterize, as many new shape parameters as the base has, or fewer):
    the effective-radius modes describe the same particle as the volumes and the amplitudes."""
    from sasmodels import core as sascore, direct_model
    base, new, text = REPARAMS[case["j"]]
    k = case["k"]
    rng = core.rng_for(case["seed"], PROP, "reparam", case["j"], k)
    info = sascore.reparameterize(sas.info(base), new, text, name="rtm14_%d" % case["j"])
    model = sas.build(info)
    pars = {"scale": float(rng.uniform(0.5, 2)), "background": float(rng.uniform(0, 0.1))}
    for p_ in info.parameters.kernel_parameters:
        if p_.type == "sld":
            pars[p_.name] = float(rng.uniform(0.5, 6.0))
        elif p_.type != "orientation" and np.isfinite(p_.default) and p_.default != 0:
            pars[p_.name] = float(min(max(p_.default*rng.uniform(0.7, 1.4), p_.limits[0]), p_.limits[1]))
    q = [np.exp(rng.uniform(math.log(1e-3), math.log(0.2), 4))]
    kern = model.make_kernel(q)
    modes = info.radius_effective_modes or []
    I = np.asarray(direct_model.call_kernel(kern, dict(pars)), float)
    # the particle's extent in the base model's terms, through the base model at the translated parameters
    for mode in range(0, len(modes) + 1):
        F1, F2, R, Vs, ratio = direct_model.call_Fq(kern, dict(pars, radius_effective_mode=mode))
        c = {"base": base, "translation": text, "pars": pars, "mode": mode, "mode_name": modes[mode-1] if mode else None,
             "R": R, "V_shell": Vs, "ratio": ratio}
        rec.check("I_equals_scale_F2_over_V", core.close(I, pars["scale"]*np.asarray(F2, float)/Vs + pars["background"], 1e-12,
                                                       1e-14*float(np.max(np.abs(I)))), c)
        if mode:
            rec.check("modes_positive_finite", bool(np.isfinite(R) and R > 0 and np.isfinite(Vs) and Vs > 0), c)
            if "volume sphere" in modes[mode-1].lower():
                Vform = Vs*ratio
                rec.check("volume_sphere_mode", abs(4.0/3.0*math.pi*R**3 - Vform) <= 1e-10*Vform,
                          dict(c, sphere_volume=4.0/3.0*math.pi*R**3, V_form=Vform))
            # lengths of the particle bound every named radius: R lies between the smallest and largest half-extent x 2
            lens_ = [abs(pars[n_[0]]) for n_ in new if n_[1] == "Ang"]
            if lens_ and ("min" in modes[mode-1].lower() or "max" in modes[mode-1].lower()):
                rec.check("modes_positive_finite", 0.05*min(lens_) <= R <= 2.0*max(lens_),
                          dict(c, note="a min/max radius mode far outside the particle's own lengths", lengths=lens_))
    kern.release()
    rec.bucket("reparameterised-form-factor")
    rec.set_shape(("reparam", case["j"], k), True)


def run_case(case, rec):
    if case.get("kind") == "reparam":
        return run_reparam(case, rec)
    from sasmodels import direct_model
    name = case["model"]
    i = sas.info(name)
    rng = core.rng_for(case["seed"], PROP, name, case["k"])
    k = case["k"]
    pars = sas.base_pars(i, case["seed"]*977 + k, style="default" if k == 0 else "wide" if k % 3 == 2 else "random")
    # length parameters that default to zero switch a feature on (interfacial roughness, ...); the generic
    # generator leaves them near zero, so every third case sets them to a few percent of the particle size
    if k % 3 == 1:
        sz = sas.size_scale(i, pars)
        for p_ in i.parameters.kernel_parameters:
            if p_.units == "Ang" and p_.length == 1 and p_.default == 0 and p_.name in pars and p_.limits[0] <= 0 \
                    and not np.isfinite(p_.limits[1]):
                pars[p_.name] = float(rng.uniform(0.02, 0.2))*sz
                rec.bucket("zero-default-length-switched-on")
    eq = case.get("equal")
    if eq:
        v0 = pars[eq[0]]
        if all(i.parameters[b].limits[0] <= v0 <= i.parameters[b].limits[1] for b in eq[1:]):
            for b in eq[1:]:
                pars[b] = v0
            rec.bucket("special:lengths-exactly-equal")
    if name == "hollow_rectangular_prism":
        # generator hygiene: the wall cannot be thicker than half the shortest side (documented constraint of the
        # model; the wide parameter style draws the ratios independently of the thickness)
        side = pars["length_a"]*min(1.0, pars["b2a_ratio"], pars["c2a_ratio"])
        if 2.0*pars["thickness"] >= 0.95*side:
            pars["thickness"] = 0.2*side
    # make rim/shell parameters asymmetric so that swapped arguments show
    pd_on = (k % 2 == 1)
    meshn = 1
    if pd_on and eq:
        # the same relative distribution on the equal lengths: the diagonal mesh points are the symmetric shapes
        n_ = int(rng.integers(3, 6))
        w_ = float(rng.uniform(0.05, 0.15))
        for b in eq:
            if i.parameters[b].polydisperse:
                sas.add_pd(pars, i.parameters[b], "gaussian", n_, w_, 2.0)
                meshn *= n_
        rec.bucket("special:equal-lengths-with-equal-dispersity")
    elif pd_on:
        cand = [p for p in sas.usable_pd(i, pars, "1d")]
        rng.shuffle(cand)
        sizes = [[11, 10], [7], [15, 8], [4, 3]][(k//2) % 4]
        for p, n in zip(cand[:2], sizes):
            lo, hi = p.limits
            v = pars[p.name]
            room = min(abs(v - lo), abs(hi - v))/abs(v)
            w = min(float(rng.uniform(0.05, 0.25)), 0.9*room/2.5)
            if w > 0:
                sas.add_pd(pars, p, ["gaussian", "schulz", "lognormal"][int(rng.integers(3))], n, w, 2.5)
                meshn *= n
    VB = {"barbell": ("radius_bell", "radius"), "capped_cylinder": ("radius_cap", "radius")}
    if name in VB and k % 2 == 1:
        # a dispersity mesh that crosses the model's validity condition (bell/cap radius >= cylinder radius):
        # invalid points take no part in any of the averages
        big, small = VB[name]
        pars[big] = pars[small]*1.03
        for kk in [kk for kk in pars if kk.endswith(("_pd", "_pd_n", "_pd_nsigma", "_pd_type"))]:
            del pars[kk]
        for nm in (big, small):
            sas.add_pd(pars, i.parameters[nm], "gaussian", 5, 0.08, 2.0)
        pd_on, meshn = True, 25
        rec.bucket("mesh-crosses-validity-condition")
    rec.bucket("pd:on" if pd_on and meshn > 1 else "pd:off", "lane:" + case.get("lane", "plain"))
    if meshn > 100:
        rec.bucket("mesh>100")
    size = sas.size_scale(i, pars)
    per = sas.eval_cost(i, "1d")
    nq = 6 if per*meshn*6*12 < 4.0 else 3
    q = np.concatenate([[1e-5/size, 1e-3/size], np.exp(rng.uniform(math.log(0.1/size), math.log(20.0/size), nq - 2))])
    q = np.clip(np.sort(q), 1e-9, 5.0)
    model = sas.build(name)
    kernel = model.make_kernel([q])
    if k % 3 == 0 and i.radius_effective_modes:
        # the mode names of a form factor are its own: building a P@S product with it earlier in the process does
        # not change which name selects which radius
        from sasmodels import core as sascore
        before_names = list(i.radius_effective_modes)
        try:
            sascore.load_model_info(name + "@hardsphere")
            sascore.load_model_info(name + "@squarewell")
        except Exception:
            pass
        after_names = list(sascore.load_model_info(name).radius_effective_modes or [])
        rec.check("mode_names_unchanged_by_product", before_names == list(i.radius_effective_modes) == after_names,
                  {"model": name, "before": before_names, "after_on_same_info": list(i.radius_effective_modes),
                   "after_on_reloaded_info": after_names})
        rec.bucket("after-product-built-with-this-form-factor")
    modes = i.radius_effective_modes or []
    mono = not (pd_on and meshn > 1)
    ctx = {"model": name, "pars": pars, "q": q}
    scale, bg = pars.get("scale", 1.0), pars.get("background", 0.0)
    I = np.asarray(direct_model.call_kernel(kernel, dict(pars)), float)
    hollow = bool(sas.raw(i)._defs.get("shell_volume"))
    if hollow:
        rec.bucket("hollow")
    maxmode = len(modes) if per*meshn*len(q)*(len(modes) + 2) < 6.0 else min(len(modes), 2)
    for mode in range(0, maxmode + 1):
        F1, F2, R, Vs, ratio = direct_model.call_Fq(kernel, dict(pars, radius_effective_mode=mode))
        F1, F2 = np.asarray(F1, float), np.asarray(F2, float)
        c = dict(ctx, mode=mode, mode_name=modes[mode-1] if mode else None, F1=F1, F2=F2, R=R, V_shell=Vs, ratio=ratio)
        rec.check("F1sq_le_F2", bool(np.all(F1**2 >= 0) and np.all(F1**2 <= F2*(1 + 1e-12) + 1e-300)), c)
        rec.check("I_equals_scale_F2_over_V", core.close(I, scale*F2/Vs + bg, 1e-12, 1e-14*float(np.max(np.abs(I)))), dict(c, I=I))
        if mode:
            rec.check("modes_positive_finite", bool(np.isfinite(R) and R > 0 and np.isfinite(Vs) and Vs > 0
                                                    and np.isfinite(ratio) and ratio > 0), c)
            nm = modes[mode-1].lower()
            if mono and "volume sphere" in nm:
                Vform = Vs*ratio
                rec.check("volume_sphere_mode", abs(4.0/3.0*math.pi*R**3 - Vform) <= 1e-10*Vform,
                          dict(c, sphere_volume=4.0/3.0*math.pi*R**3, V_form=Vform))
                rec.bucket("mode:volume-sphere")
        else:
            rec.check("modes_positive_finite", bool(np.isfinite(Vs) and Vs > 0 and np.isfinite(ratio) and ratio > 0), c)
        if mono and mode == 0:
            with np.errstate(all="ignore"):
                r = F1**2/F2
            # upper bound of the particle's extent: the largest length times every dimensionless ratio above one
            # (b2a_ratio, x_core, ...); the (q*size)^2 error bound of the low-q law needs the true largest extent
            ext = size
            for p_ in i.parameters.kernel_parameters:
                if p_.type == "volume" and (p_.units or "") in ("", "None", "none") and p_.length == 1 \
                        and abs(pars.get(p_.name, 1.0)) > 1.0:
                    ext *= abs(pars[p_.name])
            qs = q*ext
            low = qs < 3e-2
            if np.any(low) and np.all(F2[low] > 0):
                rec.check("lowq_equality_mono", bool(np.all(np.abs(r[low] - 1.0) <= 10*qs[low]**2 + 1e-10)),
                          dict(c, ratio_F1sq_F2=r, q_size=qs))
            if name in SPHERICAL:
                rec.check("spherical_equality_mono", core.close(F1**2, F2, 1e-10, 1e-12*float(np.max(F2))), c)
    if not mono:
        # the identity at a weight cutoff above zero (both entry points given the same cutoff), and through the data-object
        # calculator asked for the whole mesh (cutoff 0)
        from sasmodels import data as sdata
        cut_ = float(10**rng.uniform(-3.5, -2.0))
        Ic = np.asarray(direct_model.call_kernel(kernel, dict(pars), cutoff=cut_), float)
        F1c, F2c, _Rc, Vsc, _rc = direct_model.call_Fq(kernel, dict(pars, radius_effective_mode=0), cutoff=cut_)
        okc = core.close(Ic, scale*np.asarray(F2c, float)/Vsc + bg, 1e-12, 1e-14*float(np.max(np.abs(Ic))))
        rec.check("I_equals_scale_F2_over_V", okc,
                  None if okc else dict(ctx, cutoff=cut_, I=Ic, F2=F2c, V_shell=Vsc, note="call_kernel and call_Fq given the same cutoff"))
        if not np.array_equal(Ic, I):
            rec.bucket("cutoff>0:removes-mesh-points")
        Idm = np.asarray(direct_model.DirectModel(sdata.empty_data1D(q), model, cutoff=0.0)(**pars), float)
        okd = core.close(Idm, I, 1e-12, 1e-14*float(np.max(np.abs(I))))
        rec.check("I_equals_scale_F2_over_V", okd,
                  None if okd else dict(ctx, I_DirectModel_cutoff_0=Idm, I_call_kernel_cutoff_0=I,
                                        note="DirectModel(data, model, cutoff=0) against scale*<F^2>/<V>+background of the whole mesh"))
        rec.bucket("entry:DirectModel-cutoff-0")
        # the monodisperse switch of both entry points on a parameter set that carries distributions
        Im = np.asarray(direct_model.call_kernel(kernel, dict(pars), mono=True), float)
        F1m, F2m, _Rm, Vsm, _rm = direct_model.call_Fq(kernel, dict(pars, radius_effective_mode=0), mono=True)
        okm = core.close(Im, scale*np.asarray(F2m, float)/Vsm + bg, 1e-12, 1e-14*float(np.max(np.abs(Im))))
        rec.check("I_equals_scale_F2_over_V", okm,
                  None if okm else dict(ctx, I_mono=Im, F2_mono=F2m, V_shell_mono=Vsm, note="call_kernel(mono=True) against call_Fq(mono=True)"))
        rec.bucket("entry:mono-switch")
    # the same (shape-monodisperse) particles seen through the 2-D entry with a spread of orientations: the
    # reported radius and volumes are those of the particle
    angs = [p_.name for p_ in i.parameters.orientation_parameters]
    if mono and angs and modes and k % 2 == 0:
        qx, qy = sas.q_points_2d(i, pars, 3, rng)
        kern2 = model.make_kernel([qx, qy])
        p2 = dict(pars)
        for a_ in angs:
            p2[a_] = float(rng.uniform(-80, 80))
        jit_ = angs[:int(rng.integers(1, len(angs) + 1))]
        for a_ in jit_:
            p2.update({a_ + "_pd": float(rng.uniform(5, 35)), a_ + "_pd_n": int(rng.integers(3, 8)),
                       a_ + "_pd_nsigma": 1.6, a_ + "_pd_type": ["gaussian", "rectangle", "uniform"][int(rng.integers(3))]})
        ref_ = {}
        for mode in range(1, maxmode + 1):
            _f1, _f2, R1, Vs1, ratio1 = direct_model.call_Fq(kernel, dict(pars, radius_effective_mode=mode))
            _g1, _g2, R2, Vs2, ratio2 = direct_model.call_Fq(kern2, dict(p2, radius_effective_mode=mode))
            c2 = dict(ctx, mode=mode, mode_name=modes[mode-1], entry="2-D q with orientation spread on " + ",".join(jit_),
                      pars_2d=p2, R=R2, V_shell=Vs2, ratio=ratio2, R_1d=R1, V_shell_1d=Vs1)
            rec.check("modes_positive_finite", bool(np.isfinite(R2) and R2 > 0 and np.isfinite(Vs2) and Vs2 > 0
                                                    and np.isfinite(ratio2) and ratio2 > 0), c2)
            if "volume sphere" in modes[mode-1].lower():
                Vf2 = Vs2*ratio2
                rec.check("volume_sphere_mode", abs(4.0/3.0*math.pi*R2**3 - Vf2) <= 1e-10*Vf2,
                          dict(c2, sphere_volume=4.0/3.0*math.pi*R2**3, V_form=Vf2))
        kern2.release()
        rec.bucket("entry:2d-with-orientation-spread")
    # a result set that was handed out stays consistent when the same kernel is used again with other values
    # (the outputs must not be views of a buffer the next call rewrites)
    other = {kk: (vv*1.3 if kk in {p_.name for p_ in i.parameters.kernel_parameters if p_.type == "volume" and p_.units == "Ang"}
                  else vv) for kk, vv in pars.items() if not kk.endswith(("_pd", "_pd_n", "_pd_nsigma", "_pd_type"))}
    try:
        direct_model.call_Fq(kernel, dict(other, radius_effective_mode=0))
    except Exception:
        pass
    rec.check("result_set_consistent_after_later_call",
              core.close(I, scale*F2/Vs + bg, 1e-12, 1e-14*float(np.max(np.abs(I)))),
              dict(ctx, F2_now=F2, V_shell=Vs, I=I, later_call=other))
    rec.set_shape((name, sorted((kk, pars[kk]) for kk in pars if kk.endswith("_pd_n")), maxmode, k % 7),
                  nontrivial=(k != 0))
    if k < 2:
        rec.observe(model=name, modes=modes, q=q, I=I)
    kernel.release()


def classify(case, v):
    d = v.get("detail") or {}
    pars = d.get("pars") or {}
    if d.get("model") == "spherical_sld":
        n = int(pars.get("n_shells", 1))
        boucher = any(pars.get("shape%d" % k) == 5.0 and pars.get("nu%d" % k, 2.5) < 4.0
                      and pars.get("interface%d" % k, 50.0) > 0 for k in range(1, n + 1))
        F2 = d.get("F2")
        if boucher and F2 is not None and all(x == "nan" for x in F2):
            return "C14/spherical_sld-boucher-interface-nan-for-nu-below-4"
    return None


LEVEL_TEXT = ("call_Fq (every effective-radius mode) and call_kernel on all amplitude models over generated parameter sets, "
              "dispersity meshes on both sides of the chunk boundary and q from 1e-5/size to 20/size, judged by the "
              "inequalities and identities of the statement; reduced copy under ASan/UBSan.  Exploration.")
LEVEL_NOTE = "Identities only (no external reference values); the list of spherically symmetric models is fixed in the harness."
TECHNIQUE = "invariant monitors on the outputs of the real amplitude kernels over generated inputs + ASan/UBSan lane"
