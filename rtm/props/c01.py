"""
C01 - dispersity-averaged I(q) is the documented volume-normalised weighted mean.

Real calls of call_kernel / call_Fq on every compiled model are compared with a
naive weighted mean over the enumerated mesh, evaluated with the model's own
single-particle functions through the raw library.  Extra monitors: partition
independence on the raw kernel symbols, refusal of too many dispersed
parameters, invocation-trace coverage, poison (stale read), ASan/UBSan lane.
"""
from __future__ import annotations

import ctypes as ct
import itertools
import math
import os

import numpy as np

from rtm import core, sas

PROP = "C01"
LEVEL = "exploration"
RULE = ("For every compiled model: generated parameter sets (model's own random generator, inside limits) x dispersity "
        "configurations built constructively for a requested class (1..5 dispersed parameters; product mesh size 2..99, "
        "exactly 100, 101..199, 200..400, ~1000 (thorough); every distribution type; limit cuts to 2, 1 and 0 points at "
        "rotating parameter positions; cutoff 0, 1e-5 or placed between two mesh weights) x 1-D/2-D q.  Distinct: hash "
        "of (model, dim, ordered (parameter, type, points kept), cutoff class, q count, call).  Non-trivial: >=2 "
        "qualifying points in some dimension, or a truncation/empty/refusal case.")
ASSUMPTIONS = [
    "the raw library (model's own C text + exported wrappers, compiled separately) gives the model's own F^2, F, volumes, R_eff and validity",
    "get_mesh output is the boundary: weights themselves are C02's business",
    "non-zero cutoffs are placed strictly between distinct combined weights (no ties; projection factor on the same side)",
    "DLL back end only (no OpenCL/CUDA in the sandbox)",
]
REQUIRED_MONITORS = ["I_equals_weighted_mean", "Fq_outputs_equal_weighted_means", "partition_independent",
                     "refuses_too_many_dispersed", "trace_covers_mesh_once", "no_stale_result"]
REQUIRED_BUCKETS = {
    "quick": ["dims:1", "dims:2", "dims:3", "dims:4", "dims:5", "mesh:2..99", "mesh:100", "mesh:101..199",
              "mesh:200..400", "jitter:beyond-90-degrees", "precision:single-with-placed-cutoff", "reparameterised-model", "hollow-plugin:c-string", "hollow-plugin:c-code", "trunc:2", "trunc:1", "trunc:0", "trunc:1:parameter-without-loop-slot", "cutoff:0", "cutoff:1e-5", "cutoff:placed", "cutoff:tie",
              "dim:1d", "dim:2d", "have_Fq", "no_Fq", "Fq_in_2d", "hollow", "invalid_points>0", "loops>=3_cross_chunk",
              "lane:asan", "refusal"] + ["dist:" + d for d in sas.DIST],
}
REQUIRED_BUCKETS["thorough"] = REQUIRED_BUCKETS["quick"] + ["mesh:~1000"]

SAN_MODELS = ["sphere", "cylinder", "core_multi_shell", "core_shell_bicelle_elliptical", "barbell",
              "hollow_cylinder", "parallelepiped", "fractal"]
CLASSES = ["2..99", "100", "101..199", "200..400"]


def worker_init(tier, seed):
    sas.install_poison()


def gen_cases(tier, seed):
    nshape = 6 if tier == "quick" else 48
    cases = []
    models = sas.compiled_models()
    for m in models:
        for s in range(nshape):
            cases.append({"id": "%s/s%02d" % (m, s), "kind": "value", "model": m, "shape": s, "seed": seed,
                          "tier": tier, "group": m, "lane": "plain", "cost": 1.0})
        cases.append({"id": "%s/refusal" % m, "kind": "refusal", "model": m, "seed": seed, "group": m,
                      "lane": "plain", "cost": 0.3})
        # a distribution cut to one point on a parameter that gets no loop slot (max_pd others are dispersed):
        # every size parameter of every model with more dispersible parameters than loop slots, in turn
        i = sas.info(m)
        for dim in ("2d", "1d"):
            names = i.parameters.pd_2d if dim == "2d" else i.parameters.pd_1d
            if len(names) > i.parameters.max_pd and (dim == "2d" or not i.parameters.orientation_parameters):
                nv = len([p_ for p_ in i.parameters.call_parameters if p_.name in names and p_.type == "volume"])
                for j in range(nv if tier == "thorough" else min(nv, 6)):
                    cases.append({"id": "%s/noslot-%s-%d" % (m, dim, j), "kind": "value", "model": m, "shape": 6,
                                  "noslot": [dim, j], "seed": seed, "tier": tier, "group": m, "lane": "plain", "cost": 1.0})
                break
    # models given other parameters (core.reparameterize), with dispersity on the new parameters
    for j in range(len(REPARAMS)):
        for kk in range(3 if tier == "quick" else 24):
            cases.append({"id": "reparam/%d-%02d" % (j, kk), "kind": "reparam", "j": j, "k": kk, "seed": seed, "model": "reparam",
                          "group": "rp%d" % j, "lane": "plain", "cost": 2.0})
    for var in ("c-string", "c-code"):
        for kk in range(3 if tier == "quick" else 18):
            cases.append({"id": "hollowplugin/%s-%02d" % (var, kk), "kind": "hollowplugin", "variant": var, "k": kk, "seed": seed,
                          "model": "hollowplugin", "group": "hp-" + var, "lane": "plain", "cost": 1.0})
    san = SAN_MODELS if tier == "quick" else models
    for m in san:
        for s in range(3 if tier == "quick" else 6):
            cases.append({"id": "asan/%s/s%02d" % (m, s), "kind": "value", "model": m, "shape": s + 100,
                          "seed": seed, "tier": tier, "group": "asan-" + m, "lane": "asan", "cost": 3.0})
    return cases


# ---------------------------------------------------------------------------

# models whose validity predicate can be crossed by a dispersity mesh: (larger, smaller)
VALID_BOUNDARY = {"barbell": ("radius_bell", "radius"), "capped_cylinder": ("radius_cap", "radius"),
                  "pearl_necklace": ("radius", "thick_string")}


def mesh_class(n):
    if n <= 1:
        return "1"
    if n < 100:
        return "2..99"
    if n == 100:
        return "100"
    if n < 200:
        return "101..199"
    if n <= 400:
        return "200..400"
    return "~1000" if n >= 700 else "401..699"


def build_shape(i, case, rng):
    """Parameter set with a dispersity configuration for the requested class."""
    s = case["shape"]
    tier = case.get("tier", "quick")
    dim = "2d" if s % 3 == 2 else "1d"
    noslot = case.get("noslot")
    if noslot:
        dim = noslot[0]
    elif s % 12 == 6 and i.parameters.orientation_parameters:
        dim = "2d"                     # truncation cases alternate between 1-D and 2-D
    pars = sas.base_pars(i, case["seed"]*1000 + s + (7*noslot[1] if noslot else 0))
    cand = sas.usable_pd(i, pars, dim)
    meta = {"dim": dim, "trunc": None}
    if not cand:
        return pars, meta
    max_pd = i.parameters.max_pd
    trunc = None
    if s % 6 == 0:
        trunc = [2, 1, 0][(s//6 + case["seed"] + sum(map(ord, i.id))) % 3]
    classes = CLASSES + (["~1000"] if tier == "thorough" else [])
    cls = classes[(s + case["seed"]) % len(classes)]
    ndims = 1 + (s*7 + case["seed"]) % 5
    ndims = max(1, min(ndims, len(cand), max_pd))
    if noslot:
        trunc = 1
    if trunc is not None:
        cls = "2..99"
        ndims = min(max(ndims, 2), len(cand), max_pd)
    if noslot:
        ndims = max_pd + 1
    if cls == "~1000" and dim == "1d" and len(i.parameters.orientation_parameters) > 0:
        # orientation-averaged 1-D models cost ~0.3 ms per point in the oracle: keep q small instead
        pass
    # bound the cost: mesh points x q points x measured cost per evaluation x number of full-mesh passes
    # (real call, Fq call, two oracle passes, and the partition re-invocations)
    per = sas.eval_cost(i, dim)
    budget = 5.0 if tier == "quick" else 15.0
    est = {"2..99": 60, "100": 100, "101..199": 150, "200..400": 300, "~1000": 1000}
    meta["nq"], meta["nparts"] = 5, 16

    def cost():
        return est[cls]*meta["nq"]*per*(4 + meta["nparts"])
    while cost() > budget and meta["nq"] > 2:
        meta["nq"] -= 1
    while cost() > budget and meta["nparts"] > 3:
        meta["nparts"] -= 1
    order_cls = ["~1000", "200..400", "101..199", "100", "2..99"]
    while cost() > budget and cls != "2..99" and trunc is None:
        cls = order_cls[order_cls.index(cls) + 1]
        meta["downsized"] = True
    sizes = sas.factor_sizes(cls, min(ndims, max_pd), rng)
    order = rng.permutation(len(cand))
    chosen = [cand[k] for k in order[:ndims]]
    # rotate which table position is truncated
    tpar = None
    if trunc is not None:
        # limits as declared in the model's parameter table (an element of a vector parameter has the vector's limits)
        decl = declared_limits(i)
        vols = [p for p in cand if p.type == "volume" and np.isfinite(decl.get(p.name, p.limits)[0])
                and pars[p.name] > max(decl.get(p.name, p.limits)[0], 0)]
        # truncation on an element of a vector parameter wherever the model has one (rotating with the shape index)
        vec = [p for p in vols if p.name not in {q_.id for q_ in i.parameters.kernel_parameters if q_.length == 1}]
        if vec and s % 2 == 0:
            vols = vec
        if vols:
            tpar = vols[(s//18 + case["seed"] + len(i.id)) % len(vols)]
            if noslot:
                tpar = vols[noslot[1] % len(vols)]
                chosen = [cand[k] for k in order]
                sizes = [2, 2, 3, 2, 2, 2]
                meta["noslot"] = True
            chosen = [p for p in chosen if p.name != tpar.name][:max(0, ndims - 1)]
    for p, n in zip(chosen, sizes):
        dist = sas.DIST[int(rng.integers(len(sas.DIST)))]
        if p.type == "orientation":
            dist = ["gaussian", "uniform", "rectangle", "boltzmann"][int(rng.integers(4))]
            width = float(rng.uniform(2, 25))
            nsig = float(rng.uniform(1.5, 3))
            if s % 3 == 2:
                # a wide spread of orientations: jitter angles beyond +-90 degrees (their weight is |cos dtheta|)
                width = float(rng.uniform(45, 80))
                meta["wide_jitter"] = True
        else:
            width = float(rng.uniform(0.03, 0.25))
            nsig = float(rng.uniform(1.5, 3.0))
            lo, hi = p.limits
            v = pars[p.name]
            # keep the window inside the limits so that the requested class is met
            room = min(abs(v - lo), abs(hi - v))/abs(v) if v != 0 else 0
            if dist == "rectangle":
                nsig = min(nsig, 1.7)     # beyond sqrt(3) a rectangle mesh loses its end points
            if dist == "uniform":
                width = min(width, 0.9*room)
            else:
                width = min(width, 0.9*room/nsig)
            if width <= 0:
                continue
        sas.add_pd(pars, p, dist, max(n, 2), width, nsig)
    if i.id in VALID_BOUNDARY and s % 6 in (1, 2):
        big, small = VALID_BOUNDARY[i.id]
        pars[big] = pars[small]*1.03
        byname = {p.name: p for p in cand}
        for nm in (big, small):
            if nm in byname:
                sas.add_pd(pars, byname[nm], "gaussian", 5, 0.08, 2.0)
        meta["valid_boundary"] = True
    if tpar is not None:
        v = pars[tpar.name]
        lo = declared_limits(i).get(tpar.name, tpar.limits)[0]
        if trunc == 2:
            sas.add_pd(pars, tpar, "gaussian", 3, 2.0, 1.0)      # {-v, v, 3v} -> {v, 3v}
        elif trunc == 1:
            sas.add_pd(pars, tpar, "gaussian", 2, 2.0, 1.0)      # {-v, 3v} -> {3v}
        else:
            pars[tpar.name] = lo - 1.0 if lo > 0 else -abs(v)    # centre outside the limits
            sas.add_pd(pars, tpar, "gaussian", 5, 0.1, 2.0)      # nothing survives
        meta["trunc"] = trunc
        meta["trunc_par"] = tpar.name
        meta["trunc_pos"] = [q.name for q in i.parameters.call_parameters].index(tpar.name)
    return pars, meta


def place_cutoff(oracle, mesh, dim, rng):
    ws = []
    for w, v, view, jitter in oracle.enumerate(mesh, dim, -1.0):
        ws.append(w)
        if jitter[0] != 0.0:
            c = abs(math.cos(math.radians(jitter[0])))
            if c > 0:
                ws.append(w/c)
    ws = sorted(set(x for x in ws if x > 0))
    if len(ws) < 4:
        return None
    k0 = max(1, int(0.3*len(ws)))
    for k in list(range(k0, len(ws) - 1)) + list(range(k0 - 1, 0, -1)):
        a, b = ws[k - 1], ws[k]
        if b > a*(1 + 1e-6):
            return math.sqrt(a*b)
    return None


def raw_invoke(kernel, fn, details, values, cutoff, mode, parts):
    nq = kernel.q_input.nq
    res = np.full(kernel.result.shape, sas.POISON, dtype=np.float64)
    for start, stop in parts:
        fn(nq, int(start), int(stop), details.buffer.ctypes.data, values.ctypes.data,
           kernel.q_input.q.ctypes.data, res.ctypes.data, ct.c_double(cutoff), int(mode))
    return res


def partitions(num_eval, details, rng):
    parts = {"chunks100": [(a, min(a + 100, num_eval)) for a in range(0, num_eval, 100)]}
    cuts = {1, num_eval - 1}
    for s in details.pd_stride:
        for d in (-1, 0, 1):
            cuts.add(int(s) + d)
            cuts.add(2*int(s) + d)
    for c in sorted(c for c in cuts if 0 < c < num_eval)[:12]:
        parts["split@%d" % c] = [(0, c), (c, num_eval)]
    if num_eval <= 150:
        parts["singletons"] = [(k, k + 1) for k in range(num_eval)]
    for r in range(3):
        k = int(rng.integers(1, min(6, num_eval)))
        cs = sorted(set(int(x) for x in rng.integers(1, num_eval, k)))
        edges = [0] + cs + [num_eval]
        parts["random%d" % r] = [(a, b) for a, b in zip(edges[:-1], edges[1:]) if b > a]
    return parts


def run_value(case, rec):
    from sasmodels import direct_model, details as sdetails
    name = case["model"]
    i = sas.info(name)
    rng = core.rng_for(case["seed"], PROP, name, case["shape"])
    pars, meta = build_shape(i, case, rng)
    dim = meta["dim"]
    nq = meta.get("nq", 5)
    if dim == "1d":
        q = sas.q_values(i, pars, nq, rng)
        qv, qo = [q], q
    else:
        qx, qy = sas.q_points_2d(i, pars, nq, rng)
        qv, qo = [qx, qy], (qx, qy)
    model = sas.build(name)
    kernel = model.make_kernel(qv)
    oracle = sas.Oracle(i)
    mesh = direct_model.get_mesh(i, pars, dim=dim)
    lengths = [len(m[1]) for m in mesh[2:2 + i.parameters.npars]]
    meta["has_empty"] = any(l == 0 for l in lengths)
    meta["has_offnominal_single"] = any(
        len(m[1]) == 1 and p.type != "orientation" and float(m[1][0]) != float(m[0])
        for p, m in zip(i.parameters.call_parameters[2:2 + i.parameters.npars], mesh[2:2 + i.parameters.npars]))
    if meta["has_empty"]:
        rec.bucket("trunc:0")
    if meta["has_offnominal_single"]:
        rec.bucket("trunc:1")
        if meta.get("noslot"):
            rec.bucket("trunc:1:parameter-without-loop-slot")
    # cutoff class
    cmode = ["0", "1e-5", "placed"][(case["shape"] + case["seed"]) % 3]
    cutoff = 0.0
    if cmode == "1e-5":
        cutoff = 1e-5
        # keep it away from ties
        ws = sorted(w for w, *_ in oracle.enumerate(mesh, dim, -1.0))
        if any(abs(w - cutoff) <= 1e-9*cutoff for w in ws):
            cutoff = 1.3e-5
    elif cmode == "placed" and sum(1 for l in lengths if l > 1) == 1 and all(l >= 1 for l in lengths) \
            and not any(len(m[1]) > 1 and p.type == "orientation" for p, m in
                        zip(i.parameters.call_parameters[2:2 + i.parameters.npars], mesh[2:2 + i.parameters.npars])):
        # one dispersed size parameter: the combined weight is exactly the mesh weight, so a cutoff equal
        # to one of the weights is a well-defined tie ("exceeds the cutoff" excludes it)
        col = [m for m in mesh[2:2 + i.parameters.npars] if len(m[1]) > 1][0]
        ws = sorted(float(w) for w in col[2])
        cutoff = ws[len(ws)//3]
        cmode = "tie"
    elif cmode == "placed":
        c = place_cutoff(oracle, mesh, dim, rng)
        if c is None:
            cmode = "0"
        else:
            cutoff = c
    if meta["trunc"] == 2:
        rec.bucket("trunc:2")
    if meta.get("wide_jitter") and dim == "2d":
        rec.bucket("jitter:beyond-90-degrees")
    # the mean is over the mesh points inside each parameter's declared limits: the limits are read from the model's
    # own parameter table (every element of a vector parameter has the limits declared for the vector)
    declared = declared_limits(i)
    outside = []
    for p_, m_ in zip(i.parameters.call_parameters[2:2 + i.parameters.npars], mesh[2:2 + i.parameters.npars]):
        lim_ = declared.get(p_.name)
        if lim_ is not None and len(m_[1]) > 1:
            pts_ = np.asarray(m_[1], float)
            if np.any(pts_ < lim_[0]) or np.any(pts_ > lim_[1]):
                outside.append([p_.name, list(lim_), float(pts_.min()), float(pts_.max())])
    rec.check("mesh_inside_declared_limits", not outside, {"model": name, "pars": pars, "outside": outside})
    # ---- the real call, traced
    tr = sas.TraceKernel(kernel)
    before = sas.poison_count()
    try:
        I = direct_model.call_kernel(kernel, dict(pars), cutoff=cutoff)
    finally:
        tr.restore()
    held = core.Held()
    held.keep("I(q) returned by call_kernel", I)
    ref, ev = oracle.intensity(mesh, qo, dim, cutoff)
    st = dict(oracle.stats)
    scale_I = float(np.max(np.abs(ref - mesh[1][0]))) if len(ref) else 0.0
    if not np.isfinite(scale_I):
        # (a reference that is NaN/inf somewhere: the absolute allowance comes from the finite entries only)
        fin_ = np.abs(ref - mesh[1][0])[np.isfinite(ref)]
        scale_I = float(np.max(fin_)) if len(fin_) else 0.0
    ctx = {"model": name, "dim": dim, "pars": pars, "cutoff": cutoff, "lengths": lengths,
           "mesh_points": st["mesh_points"], "qualifying": st["qualifying"], "q": qo, "trunc": meta.get("trunc"),
           "trunc_par": meta.get("trunc_par")}
    ok = core.close(I, ref, 1e-10, 1e-12*scale_I)
    rec.check("I_equals_weighted_mean", ok,
              None if ok else dict(ctx, observed=I, expected=ref, max_rel_err=core.maxrel(I, ref, 1e-12*scale_I)),
              key=trunc_key(meta, st))
    rec.check("no_stale_result", (sas.poison_count() > before or st["mesh_points"] == 0 or True)
              and not sas.has_poison(I) and bool(np.all(np.isfinite(I)) or not np.all(np.isfinite(ref))),
              dict(ctx, observed=I), key=trunc_key(meta, st))
    # invocation trace: [0, num_eval) covered exactly once, in order
    num_eval = int(np.prod([max(l, 1) for l in lengths])) if all(l > 0 for l in lengths) else 0
    cover = sorted(tr.trace)
    exp_n = st["mesh_points"]
    okc = (not cover and exp_n == 0) or (bool(cover) and cover[0][0] == 0 and
                                         all(a[1] == b[0] for a, b in zip(cover[:-1], cover[1:])) and
                                         cover[-1][1] >= 1)
    rec.check("trace_covers_mesh_once", okc, dict(ctx, trace=tr.trace[:20]), key=trunc_key(meta, st))
    # ---- Fq (2-D kernels report <F^2>, R_eff and the volumes too: the branch without a separate <F>)
    if True:
        nmodes = len(i.radius_effective_modes or [])
        mode = int(rng.integers(0, nmodes + 1))
        fpars = dict(pars)
        fpars["radius_effective_mode"] = mode
        F1, F2, R, Vs, ratio = direct_model.call_Fq(kernel, fpars, cutoff=cutoff)
        held.keep("outputs of call_Fq", (F1, F2))
        evF = oracle.evaluate(mesh, qo, dim, cutoff, mode=mode, want_F1=True)
        if evF["weight"] > 0:
            s2 = float(np.max(np.abs(evF["F2"]))) if len(evF["F2"]) else 0.0
            okF = core.close(F2, evF["F2"], 1e-10, 1e-12*s2)
            okF &= core.close(Vs, evF["shell"] if evF["shell"] != 0 else 1.0, 1e-10)
            if evF["shell"] != 0:
                okF &= core.close(ratio, evF["form"]/evF["shell"], 1e-10)
            if mode:
                okF &= core.close(R, evF["radius"], 1e-10, 1e-300)
            if i.have_Fq and dim == "1d":
                okF &= core.close(F1, evF["F1"], 1e-10, 1e-10*math.sqrt(s2))
            rec.check("Fq_outputs_equal_weighted_means", okF,
                      None if okF else dict(ctx, mode=mode, observed=[F1, F2, R, Vs, ratio],
                                            expected=[evF["F1"], evF["F2"], evF["radius"], evF["shell"],
                                                      evF["form"]/evF["shell"] if evF["shell"] else None]),
                      key=trunc_key(meta, st))
        else:
            okF = bool(np.all(np.asarray(F2) == 0.0))
            rec.check("Fq_outputs_equal_weighted_means", okF, dict(ctx, mode=mode, observed=[F1, F2, R, Vs, ratio],
                                                                   expected="<F^2>=0 for an empty qualifying set"),
                      key=trunc_key(meta, st))
        if dim == "1d":
            rec.bucket("have_Fq" if i.have_Fq else "no_Fq")
        else:
            rec.bucket("Fq_in_2d")
    # ---- partition independence on the raw symbol
    if 2 <= num_eval <= 450 and all(l > 0 for l in lengths):
        details, values, is_mag = sdetails.make_kernel_args(kernel, mesh)
        fn = kernel.kernel[0]
        whole = raw_invoke(kernel, fn, details, values, cutoff, 1, [(0, details.num_eval)])
        allparts = list(partitions(int(details.num_eval), details, rng).items())
        keep = meta.get("nparts", 16)
        if len(allparts) > keep:
            # always keep the real chunking; sample the rest
            rest = allparts[1:]
            pick = sorted(rng.choice(len(rest), size=keep - 1, replace=False).tolist())
            allparts = allparts[:1] + [rest[k] for k in pick]
        for pname, parts in allparts:
            got = raw_invoke(kernel, fn, details, values, cutoff, 1, parts)
            same = bool(np.array_equal(whole.view(np.uint64), got.view(np.uint64)))
            if not same and core.close(got, whole, 1e-12, 0.0):
                rec.count("partition_reassociated_within_1e-12")
                same = True
            rec.check("partition_independent", same,
                      dict(ctx, partition=pname, parts=parts[:8], whole=whole[-6:], got=got[-6:]))
        nloops = sum(1 for l in lengths if l > 1)
        if nloops >= 3 and details.num_eval > 100:
            rec.bucket("loops>=3_cross_chunk")
    # ---- the same request in single precision (models declared safe for it): the cutoff is a real-valued argument of the
    # compiled kernel too, and a cutoff placed between two weight levels selects the same points in every precision
    if cmode == "placed" and i.single and case.get("lane", "plain") == "plain" and np.all(np.isfinite(ref)) and st["qualifying"] >= 1:
        m32 = sas.build(name, dtype="single!")
        k32 = m32.make_kernel(qv)
        I32 = np.asarray(direct_model.call_kernel(k32, dict(pars), cutoff=cutoff), float)
        I32zero = np.asarray(direct_model.call_kernel(k32, dict(pars), cutoff=0.0), float)
        # (what single precision itself costs this model at these q is read off the same kernel without a cutoff: three
        # times that error is allowed on top of the usual 2e-3)
        ref0_, _ = oracle.intensity(mesh, qo, dim, 0.0)
        allow_ = 2e-3*np.abs(ref) + 3.0*np.abs(I32zero - ref0_) + 1e-5*scale_I + 1e-6
        ok32 = bool(np.all(np.abs(I32 - ref) <= allow_))
        rec.check("I_equals_weighted_mean", ok32,
                  None if ok32 else dict(ctx, precision="single", observed=I32, expected=ref, same_kernel_cutoff_0=I32zero,
                                         max_rel_err=core.maxrel(I32, ref, 1e-5*scale_I + 1e-6)))
        rec.bucket("precision:single-with-placed-cutoff")
        k32.release()
    # ---- accounting
    nd = sum(1 for l in lengths if l != 1)
    rec.bucket("dims:%d" % min(nd, 5) if nd else "dims:0", "mesh:" + mesh_class(st["mesh_points"]),
               "cutoff:" + cmode, "dim:" + dim, "lane:" + case.get("lane", "plain"))
    if st["invalid"] > 0:
        rec.bucket("invalid_points>0")
    if sas.raw(i)._defs.get("shell_volume"):
        rec.bucket("hollow")
    for k in pars:
        if k.endswith("_pd_type"):
            rec.bucket("dist:" + pars[k])
    shape = (name, dim, sorted((k[:-8], pars[k]) for k in pars if k.endswith("_pd_type")), lengths, cmode, nq)
    # the same kernel object again with another cutoff: the mean is over the points that cutoff retains
    cutoff2 = 0.0 if cutoff > 0 else 1e-3
    I2 = direct_model.call_kernel(kernel, dict(pars), cutoff=cutoff2)
    ref2, _ = oracle.intensity(mesh, qo, dim, cutoff2)
    ok2 = core.close(I2, ref2, 1e-10, 1e-12*scale_I)
    rec.check("I_equals_weighted_mean", ok2,
              None if ok2 else dict(ctx, note="second evaluation on the same kernel with cutoff %g" % cutoff2, observed=I2,
                                    expected=ref2, max_rel_err=core.maxrel(I2, ref2, 1e-12*scale_I)),
              key=trunc_key(meta, dict(oracle.stats)))
    # one more evaluation on the same kernel object with another scale and a monodisperse mesh, then: what was
    # returned earlier still holds the values it was returned with
    try:
        direct_model.call_kernel(kernel, {"scale": 2.5*pars.get("scale", 1.0) + 0.1, "background": 0.37})
    except Exception:
        pass
    held.verify(rec, ctx)
    if meta["trunc"] == 2 and declared.get(meta["trunc_par"], (None,))[0] == 0 and pars[meta["trunc_par"]] > 0:
        _edge_of_limits(rec, i, name, kernel, oracle, pars, meta, dim, qv, qo)
    rec.set_shape(shape, nontrivial=(max(lengths + [0]) >= 2 or meta["trunc"] is not None))
    rec.count("kernel_invocations", len(tr.trace))
    rec.count("mesh_points", st["mesh_points"])
    if case["shape"] in (0, 1):
        rec.observe(model=name, dim=dim, lengths=lengths, cutoff=cutoff, I=I, expected=ref, stats=st,
                    trace=tr.trace[:6])
    kernel.release()


def _edge_of_limits(rec, i, name, kernel, oracle, pars, meta, dim, qv, qo):
    """A distribution whose lowest point lies exactly on the declared lower limit (gaussian, 3 points, 50 % over two
    sigma: {0, v, 2v}): the limits are closed, so all three points take part; and a fit range entered on a SasView model
    object (its details table) is not a limit of the distribution."""
    from sasmodels import direct_model, sasview_model
    tname = meta["trunc_par"]
    v = float(pars[tname])
    pe = {k: x for k, x in pars.items() if not k.startswith(tname + "_pd")}
    pe.update({tname + "_pd": 0.5, tname + "_pd_n": 3, tname + "_pd_nsigma": 2.0, tname + "_pd_type": "gaussian"})
    mesh = direct_model.get_mesh(i, pe, dim=dim)
    pos = meta["trunc_pos"]
    pts, wts = np.asarray(mesh[pos][1], float), np.asarray(mesh[pos][2], float)
    want_p = np.array([0.0, v, 2.0*v])
    want_w = np.array([math.exp(-2.0), 1.0, math.exp(-2.0)])
    okm = (len(pts) == 3 and np.allclose(pts, want_p, rtol=1e-14, atol=0.0)
           and np.allclose(wts/wts.sum(), want_w/want_w.sum(), rtol=1e-12, atol=0.0))
    ctx = {"model": name, "dim": dim, "parameter": tname, "value": v, "pars": pe}
    rec.check("mesh_keeps_point_on_declared_limit", okm, dict(ctx, points=pts, weights=wts, expected_points=want_p),
              key="C01/point-on-declared-limit")
    mine = [tuple(m_) for m_ in mesh]
    mine[pos] = (mesh[pos][0], want_p, want_w/want_w.sum())
    I = np.asarray(direct_model.call_kernel(kernel, dict(pe)), float)
    ref, _ = oracle.intensity(mine, qo, dim, 0.0)
    fin = np.abs(ref - mesh[1][0])[np.isfinite(ref)]
    sc = float(np.max(fin)) if len(fin) else 0.0
    oki = core.close(I, ref, 1e-10, 1e-12*sc)
    rec.check("I_equals_weighted_mean", oki,
              None if oki else dict(ctx, note="lowest mesh point exactly on the declared lower limit", observed=I, expected=ref),
              key="C01/point-on-declared-limit")
    rec.bucket("trunc:point-on-limit")
    if any(p_.is_control for p_ in i.parameters.kernel_parameters):
        return
    # the same request through a SasView model object on which a narrow fit range has been entered for that parameter
    m = sasview_model._make_standard_model(name)()
    for k, x in pe.items():
        if k in m.params and "_pd" not in k:
            m.setParam(k, x)
    for k in pe:
        if k.endswith("_pd"):
            base = k[:-3]
            m.setParam(base + ".width", pe[k])
            m.setParam(base + ".npts", pe.get(base + "_pd_n", 35))
            m.setParam(base + ".nsigmas", pe.get(base + "_pd_nsigma", 3.0))
            m.setParam(base + ".type", pe.get(base + "_pd_type", "gaussian"))
    try:
        m.details[tname] = [m.details[tname][0], 0.9*v, 1.1*v]
        m.cutoff = 0.0
        Is = np.asarray(m.evalDistribution(qv[0] if len(qv) == 1 else [qv[0], qv[1]]), float)
    except Exception as exc:
        rec.check("I_equals_weighted_mean", False, dict(ctx, note="SasView model object with a fit range entered",
                                                         exception=repr(exc)[:400]), key="C01/sasview-fit-range")
        return
    oks = core.close(Is, I, 1e-10, 1e-12*sc)
    rec.check("I_equals_weighted_mean", oks,
              None if oks else dict(ctx, note="SasView model object with the fit range [0.9v, 1.1v] entered in its details "
                                    "table: the distribution is cut by the declared limits, not by the fit range",
                                    observed=Is, expected=I), key="C01/sasview-fit-range")
    rec.bucket("entry:sasview-with-fit-range")


def declared_limits(i):
    out = {}
    for p_ in i.parameters.kernel_parameters:
        if p_.length > 1:
            for j_ in range(1, p_.length + 1):
                out[p_.id + str(j_)] = tuple(p_.limits)
        else:
            out[p_.id] = tuple(p_.limits)
    return out


def trunc_key(meta, st):
    if meta.get("has_empty"):
        return "C01/empty-dimension-not-background"
    if meta.get("has_offnominal_single"):
        return "C01/one-point-dimension-evaluated-at-nominal"
    return None


def run_refusal(case, rec):
    from sasmodels import direct_model
    name = case["model"]
    i = sas.info(name)
    rng = core.rng_for(case["seed"], PROP, name, "refusal")
    did = False
    for dim in ("1d", "2d"):
        pars = sas.base_pars(i, case["seed"] + 17)
        cand = sas.usable_pd(i, pars, dim)
        max_pd = i.parameters.max_pd
        if len(cand) <= max_pd:
            continue
        for extra in (1, 2, 3):
            n = max_pd + extra
            if n > len(cand):
                break
            order = rng.permutation(len(cand))[:n]
            p2 = dict(pars)
            for k in order:
                p = cand[k]
                if p.type == "orientation":
                    sas.add_pd(p2, p, "gaussian", 2, 5.0, 1.0)
                else:
                    sas.add_pd(p2, p, "gaussian", 2, 0.05, 1.0)
            q = np.array([0.01, 0.05])
            kernel = sas.build(name).make_kernel([q] if dim == "1d" else [q, q])
            mesh = direct_model.get_mesh(i, p2, dim=dim)
            nact = sum(1 for m in mesh[2:2 + i.parameters.npars] if len(m[1]) > 1)
            if nact <= max_pd:
                continue
            try:
                I = direct_model.call_kernel(kernel, p2)
                rec.check("refuses_too_many_dispersed", False,
                          {"model": name, "dim": dim, "dispersed": nact, "max_pd": max_pd, "returned": I})
            except Exception as exc:
                rec.check("refuses_too_many_dispersed", True)
                rec.count("refusals_observed")
            did = True
            rec.set_shape((name, dim, "refusal", nact), True)
    if did:
        rec.bucket("refusal")
    else:
        rec.set_shape((name, "cannot exceed max_pd"), False)
        rec.skip("model has no more dispersible parameters than max_pd")


REPARAMS = [
    ("ellipsoid", [["vol", "Ang^3", 6.7e5, [0, np.inf], "volume", "particle volume"],
                   ["aspect", "", 2.0, [0.1, 10.0], "volume", "polar:equatorial"]],
     "re = cbrt(vol/(M_4PI_3*aspect))\nradius_equatorial = re\nradius_polar = aspect*re"),
    ("hollow_cylinder", [["outer", "Ang", 40.0, [0, np.inf], "volume", "outer radius"],
                         ["wall", "", 0.3, [0.0, 1.0], "volume", "wall fraction of the outer radius"]],
     "t_ = wall*outer\nthickness = t_\nradius = outer - t_"),
    ("core_shell_sphere", [["outer", "Ang", 80.0, [0, np.inf], "volume", "outer radius"],
                           ["frac", "", 0.7, [0.0, 1.0], "volume", "core fraction of the radius"]],
     "radius = frac*outer\nthickness = (1.0 - frac)*outer"),
]


def run_reparam(case, rec):
    """A reparameterised model with dispersity on its new parameters: the returned values are the weighted means, over
    the mesh in the new parameters, of the same model's monodisperse values at each mesh point."""
    from sasmodels import core as sascore, direct_model
    base, new, text = REPARAMS[case["j"]]
    k = case["k"]
    rng = core.rng_for(case["seed"], PROP, "reparam", case["j"], k)
    i = sascore.reparameterize(sas.info(base), new, text, name="rtm01_%d" % case["j"])
    model = sas.build(i)
    pars = {"scale": float(rng.uniform(0.5, 2)), "background": float(rng.uniform(0, 0.1))}
    for p_ in i.parameters.kernel_parameters:
        if p_.type == "orientation":
            pars[p_.name] = float(rng.uniform(-80, 80))
        elif p_.type == "sld":
            pars[p_.name] = float(rng.uniform(0.5, 6.0))
        elif np.isfinite(p_.default) and p_.default != 0:
            pars[p_.name] = float(min(max(p_.default*rng.uniform(0.8, 1.2), p_.limits[0]), p_.limits[1]))
    dim = "2d" if (k % 3 == 2 and i.parameters.orientation_parameters) else "1d"
    big = (k % 3 == 1)
    newp = [i.parameters[n_[0]] for n_ in new]
    for p_, n_ in zip(newp, ([11, 10] if big else [int(rng.integers(2, 7)), int(rng.integers(2, 5))])):
        v_ = pars[p_.name]
        room = min(v_ - p_.limits[0], p_.limits[1] - v_)/abs(v_)
        w_ = min(float(rng.uniform(0.05, 0.2)), 0.9*room/2.0)
        sas.add_pd(pars, p_, ["gaussian", "schulz", "uniform"][int(rng.integers(3))], n_, w_, 2.0)
    size = max([abs(pars[p_.name])**(1.0/{"Ang": 1, "Ang^2": 2, "Ang^3": 3}[p_.units]) for p_ in i.parameters.kernel_parameters
                if p_.units in ("Ang", "Ang^2", "Ang^3") and p_.name in pars] + [1.0])
    qa = np.clip(np.exp(rng.uniform(math.log(0.2/size), math.log(6.0/size), 4)), 1e-6, 2.0)
    q = [qa] if dim == "1d" else [qa*math.cos(0.6), qa*math.sin(0.6)]
    kern = model.make_kernel(q)
    cutoff = [0.0, 0.0, 1e-4][k % 3]
    I = np.asarray(direct_model.call_kernel(kern, dict(pars), cutoff=cutoff), float)
    modes = len(i.radius_effective_modes or [])
    mode = int(rng.integers(0, modes + 1))
    F = direct_model.call_Fq(kern, dict(pars, radius_effective_mode=mode), cutoff=cutoff)
    mesh = direct_model.get_mesh(i, pars, dim=dim)
    names = [p_.name for p_ in i.parameters.call_parameters]
    cols = [(names[j_], [float(x_) for x_ in mesh[j_][1]], [float(x_) for x_ in mesh[j_][2]]) for j_ in range(len(names))
            if len(mesh[j_][1]) > 1]
    mono = {kk: vv for kk, vv in pars.items() if not kk.endswith(("_pd", "_pd_n", "_pd_nsigma", "_pd_type"))}
    sw, swf2, swvs, swvf, swr = [], [[] for _ in qa], [], [], []
    for combo in itertools.product(*[list(zip(c_[1], c_[2])) for c_ in cols]):
        w = 1.0
        pt = dict(mono, scale=1.0, background=0.0)
        for (nm, _x, _w), (x_, w_) in zip(cols, combo):
            pt[nm] = x_
            w *= w_
        if not (w > cutoff):
            continue
        _f1, f2, r_, vs_, ratio_ = direct_model.call_Fq(kern, dict(pt, radius_effective_mode=mode))
        sw.append(w)
        swvs.append(w*float(vs_))
        swvf.append(w*float(vs_)*float(ratio_))
        swr.append(w*float(r_))
        for j_ in range(len(qa)):
            swf2[j_].append(w*float(f2[j_]))
    W = math.fsum(sw)
    shell = math.fsum(swvs)/W
    F2 = np.array([math.fsum(x_) for x_ in swf2])/W
    exp = pars["scale"]*F2/shell + pars["background"]
    ctx = {"base": base, "translation": text, "pars": pars, "dim": dim, "cutoff": cutoff, "mesh_points": len(sw), "mode": mode}
    sc = float(np.max(np.abs(exp - pars["background"])))
    ok = core.close(I, exp, 1e-9, 1e-12*sc)
    rec.check("I_equals_weighted_mean", ok, None if ok else dict(ctx, observed=I, expected=exp, max_rel_err=core.maxrel(I, exp, 1e-12*sc)))
    okF = core.close(np.asarray(F[1], float), F2, 1e-9, 1e-12*float(np.max(np.abs(F2)))) and core.close(float(F[3]), shell, 1e-10) \
        and core.close(float(F[4]), math.fsum(swvf)/W/shell, 1e-10) and (not mode or core.close(float(F[2]), math.fsum(swr)/W, 1e-10))
    rec.check("Fq_outputs_equal_weighted_means", okF,
              None if okF else dict(ctx, observed=[F[1], F[2], F[3], F[4]], expected=[F2, math.fsum(swr)/W, shell, math.fsum(swvf)/W/shell]))
    rec.bucket("reparameterised-model", "mesh:" + mesh_class(len(sw)), "dim:" + dim)
    rec.set_shape(("reparam", case["j"], k, dim, len(sw)), nontrivial=len(sw) >= 2)
    kern.release()


def run_hollow_plugin(case, rec):
    """A hollow shape supplied as a C plugin whose shell volume is written in the model file (string body / inline code
    block): the mean is normalised by the mean shell volume.  Closed forms."""
    from sasmodels import core as sascore, direct_model
    from rtm.props.c07 import HOLLOW_C, SHELL_STRING, SHELL_CCODE
    kind, k = case["variant"], case["k"]
    rng = core.rng_for(case["seed"], PROP, "hollow", kind, k)
    d = os.path.join(os.environ.get("RTM_SCRATCH", "/tmp"), "c01plugins")
    os.makedirs(d, exist_ok=True)
    name = "rtm01_hollow_%s" % kind.replace("-", "_")
    path = os.path.join(d, name + ".py")
    with open(path, "w") as f:
        f.write(HOLLOW_C % dict(name=name, shell=SHELL_STRING if kind == "c-string" else SHELL_CCODE))
    model = sascore.load_model(path, dtype="double", platform="dll")
    info = model.info
    R, t = float(rng.uniform(15, 60)), float(rng.uniform(4, 25))
    sld, solv = float(rng.uniform(0.5, 4)), float(rng.uniform(5, 7))
    scale, bg = float(rng.uniform(0.5, 2)), float(rng.uniform(0, 0.05))
    nR, nt = [(1, 1), (5, 4), (13, 11)][k % 3]
    pars = dict(sld=sld, sld_solvent=solv, radius=R, thickness=t, scale=scale, background=bg)
    if nR > 1:
        pars.update(radius_pd=0.12, radius_pd_n=nR, radius_pd_nsigma=2.0, thickness_pd=0.2, thickness_pd_n=nt, thickness_pd_nsigma=2.0,
                    thickness_pd_type="schulz")
    q = [np.exp(rng.uniform(math.log(0.004), math.log(0.25), 5))]
    cutoff = [0.0, 1e-4][k % 2]
    kern = model.make_kernel(q)
    I = np.asarray(direct_model.call_kernel(kern, dict(pars), cutoff=cutoff), float)
    F = direct_model.call_Fq(kern, dict(pars), cutoff=cutoff)
    mesh = direct_model.get_mesh(info, pars, dim="1d")
    names = [p_.name for p_ in info.parameters.call_parameters]
    cR, ct = mesh[names.index("radius")], mesh[names.index("thickness")]
    j3 = lambda x: 3.0*(np.sin(x) - x*np.cos(x))/x**3
    c43 = 4.0*math.pi/3.0
    sw, sf2, svs, svf = [], [[] for _ in q[0]], [], []
    for r_, wr in zip(np.ravel(cR[1]), np.ravel(cR[2])):
        for t_, wt in zip(np.ravel(ct[1]), np.ravel(ct[2])):
            w = float(wr)*float(wt)
            if not (w > cutoff):
                continue
            f2 = 1e-4*((sld - solv)*(c43*(r_ + t_)**3*j3(q[0]*(r_ + t_)) - c43*r_**3*j3(q[0]*r_)))**2
            sw.append(w)
            svf.append(w*c43*(r_ + t_)**3)
            svs.append(w*c43*((r_ + t_)**3 - r_**3))
            for j_ in range(len(q[0])):
                sf2[j_].append(w*float(f2[j_]))
    W = math.fsum(sw)
    Vs, Vf = math.fsum(svs)/W, math.fsum(svf)/W
    F2 = np.array([math.fsum(x_) for x_ in sf2])/W
    exp = scale*F2/Vs + bg
    ctx = {"model": "hollow sphere plugin (%s)" % kind, "pars": pars, "cutoff": cutoff, "mesh_points": len(sw)}
    ok = core.close(I, exp, 1e-9, 1e-12*float(np.max(np.abs(exp))))
    rec.check("I_equals_weighted_mean", ok, None if ok else dict(ctx, observed=I, expected=exp, V_shell=Vs, V_form=Vf))
    okF = core.close(np.asarray(F[1], float), F2, 1e-9, 1e-12*float(np.max(F2))) and core.close(float(F[3]), Vs, 1e-10) \
        and core.close(float(F[4]), Vf/Vs, 1e-10)
    rec.check("Fq_outputs_equal_weighted_means", okF, None if okF else dict(ctx, observed=[F[1], F[3], F[4]], expected=[F2, Vs, Vf/Vs]))
    rec.bucket("hollow-plugin:" + kind, "mesh:" + mesh_class(len(sw)))
    rec.set_shape(("hollow-plugin", kind, k), nontrivial=True)
    kern.release()


def run_case(case, rec):
    sas.install_poison()
    if case["kind"] == "hollowplugin":
        return run_hollow_plugin(case, rec)
    if case["kind"] == "reparam":
        return run_reparam(case, rec)
    if case["kind"] == "value":
        run_value(case, rec)
    else:
        run_refusal(case, rec)


def classify(case, v):
    return v.get("key")


LEVEL_TEXT = ("Every compiled model is executed through call_kernel/call_Fq on generated dispersity meshes that are built "
              "to land in each class of the quantifier (dimension count, chunk-boundary classes, truncation to 2/1/0 "
              "points, cutoffs, 1-D/2-D) and compared with a naive extended-precision weighted mean over the enumerated "
              "mesh using the model's own single-particle functions from a separately compiled raw library; raw kernel "
              "symbols are re-invoked under many partitions and must agree bit-for-bit; a reduced copy runs under "
              "ASan+UBSan.  Exploration: held on the executions observed.")
LEVEL_NOTE = ("Trusts the raw-library wrapper (plugin calling convention) and get_mesh as the input boundary; meshes up to "
              "~1000 points; DLL path only.")
TECHNIQUE = "reference-model monitor (naive weighted mean via raw library) + partition metamorphic monitor + poison monitor + ASan/UBSan lane"
