"""
C04 - smeared values converge to the documented resolution integrals.

The real Pinhole1D / Slit1D (with uniform user grids of spacing h, 2h, 4h) and
Pinhole2D (all accuracy levels) are applied to smooth analytic intensities and
compared with adaptive quadrature (scipy quad/dblquad) of the documented
integrals, or with the closed form for quadratic forms in 2-D.
"""
from __future__ import annotations

import copy
import math
import pickle

import numpy as np

from rtm import core

PROP = "C04"
LEVEL = "exploration"
RULE = ("Smooth analytic intensities (quartic polynomials, Lorentzian-squared, damped cosine + constant) x data points q "
        "x width sets x three refinements h, 2h, 4h with h << width; 2-D: even quadratic forms x anisotropic widths x "
        "pixel directions in all quadrants x all accuracy levels.  Distinct: hash of (geometry, function family, "
        "rounded q/width ratios, h/width).  Non-trivial: the exact smeared value differs from the unsmeared one by "
        "more than 100x the bound at the finest grid (the smearing does something).")
ASSUMPTIONS = [
    "scipy.integrate.quad/dblquad (epsabs 1e-13) give the exact smeared values",
    "bound: |error| <= K (h/width) S with S the variation of I over the window; K = 0.15 pinhole, 1.0 slit (stated per "
    "geometry from the edge/mid-point error analysis with a safety factor 10); 2-D: increment error <= 0.35/nr^2",
    "convergence is observed on three refinements, not in the limit",
]
REQUIRED_MONITORS = ["pinhole_converges", "slit_length_converges", "slit_width_converges", "slit_both_converges", "pinhole2d_increment", "copied_calculator_converges"]
REQUIRED_BUCKETS = {"quick": ["geom:pinhole", "geom:slit(L,0)", "geom:slit(0,W)", "geom:slit(L,W)", "geom:2d",
                              "f:poly", "f:lorentz2", "f:dampedcos", "window_crosses_zero", "acc:low", "acc:med",
                              "acc:high", "acc:xhigh", "q<W", "sigma:interior-point-widest", "pixel_on_axis", "q_calc:without-data-points", "pixel_with_one_zero_width", "coordinates_rewritten_after_construction", "calculator:copy", "calculator:deepcopy", "calculator:pickle",
                              "caller-arrays-reused-before-first-apply", "slit:per-point-arrays", "route:data-object-with-some-zero-widths", "q_calc:partly-refined", "q_calc:geometric", "route:data-listed-in-decreasing-q", "data-order:not-increasing"]}
REQUIRED_BUCKETS["thorough"] = REQUIRED_BUCKETS["quick"]


def family(rng, name, qscale):
    """Returns (callable on arrays, description)."""
    if name == "poly":
        c = rng.uniform(-1, 1, 5)
        c[0] += 3.0
        def f(q):
            x = np.asarray(q)/qscale
            return c[0] + c[1]*x + c[2]*x**2 + c[3]*x**3 + 0.2*c[4]*x**4
        return f, {"poly": c.tolist(), "qscale": qscale}
    if name == "lorentz2":
        xi = float(rng.uniform(0.5, 3.0))/qscale
        A = float(rng.uniform(1, 10))
        def f(q):
            return A/(1.0 + (np.asarray(q)*xi)**2)**2 + 0.1
        return f, {"lorentz2": [A, xi]}
    a = float(rng.uniform(0.3, 2.0))/qscale
    b = float(rng.uniform(1.0, 6.0))/qscale
    c0 = float(rng.uniform(0.5, 2.0))
    def f(q):
        q = np.asarray(q)
        return np.exp(-a*q)*np.cos(b*q) + c0
    return f, {"dampedcos": [a, b, c0]}


def gen_cases(tier, seed):
    n = 240 if tier == "quick" else 1500
    cases = []
    geoms = ["pinhole", "slit(L,0)", "slit(0,W)", "pinhole", "slit(L,0)", "slit(0,W)", "slit(L,W)", "2d", "pinhole", "2d"]
    for k in range(n):
        g = geoms[k % len(geoms)]
        cases.append({"id": "%s/%04d" % (g, k), "geom": g, "k": k, "seed": seed, "group": "g%d" % (k % 64),
                      "cost": 3.0 if g == "slit(L,W)" else 1.0})
    for k in range(8 if tier == "quick" else 80):
        cases.append({"id": "dm/%03d" % k, "geom": "dm", "k": k, "seed": seed, "group": "dm%d" % (k % 16), "cost": 2.0})
    return cases


def exact_pinhole(f, q, s):
    from scipy.integrate import quad
    lo, hi = q - 2.5*s, q + 3.0*s
    g = lambda x: math.exp(-0.5*((x - q)/s)**2)
    pts = [0.0] if lo < 0 < hi else None
    num = quad(lambda x: float(f(abs(x)))*g(x), lo, hi, epsabs=1e-14, epsrel=1e-13, points=pts, limit=400)[0]
    den = quad(g, lo, hi, epsabs=1e-14, epsrel=1e-13, limit=400)[0]
    return num/den


def exact_slit(f, q, L, W):
    from scipy.integrate import quad, dblquad
    if W == 0:
        return quad(lambda u: float(f(math.sqrt(q*q + u*u))), 0, L, epsabs=1e-14, epsrel=1e-13, limit=400)[0]/L
    if L == 0:
        pts = [-q] if W > q else None
        return quad(lambda v: float(f(abs(q + v))), -W, W, epsabs=1e-14, epsrel=1e-13, points=pts, limit=400)[0]/(2*W)
    val = dblquad(lambda u, v: float(f(math.sqrt((q + v)**2 + u*u))), -W, W, 0, L, epsabs=1e-12, epsrel=1e-11)[0]
    return val/(2*W*L)


def run_1d(case, rec):
    from sasmodels import resolution
    geom = case["geom"]
    rng = core.rng_for(case["seed"], PROP, case["k"])
    fam = ["poly", "lorentz2", "dampedcos"][case["k"] % 3]
    q0 = float(10**rng.uniform(-2.5, -0.7))
    f, fdesc = family(rng, fam, q0)
    npts = 3
    q = np.sort(q0*rng.uniform(0.6, 1.6, npts))
    rec.bucket("geom:" + geom, "f:" + fam)
    if geom == "pinhole":
        s = q*float(10**rng.uniform(-1.6, -0.3))
        if case["k"] % 4 == 0:
            s = q*float(rng.uniform(0.45, 0.9))        # window reaches below q = 0
            rec.bucket("window_crosses_zero")
        if case["k"] % 3 == 1:
            # widths that are not monotone in q (merged instrument settings): the widest window belongs to an
            # interior point and reaches past the windows of both end points
            s = s*np.array([1.0, float(rng.uniform(2.5, 5.0)), 1.0])
            rec.bucket("sigma:interior-point-widest")
        width = float(np.min(s))
        lo, hi = float(np.min(q - 2.5*s)), float(np.max(q + 3*s))
        exact = np.array([exact_pinhole(f, qi, si) for qi, si in zip(q, s)])
        monitor, K = "pinhole_converges", 0.15
        desc = {"sigma": s}
    else:
        L = float(q0*10**rng.uniform(-1.0, 0.3)) if "L" in geom else 0.0
        W = float(q0*10**rng.uniform(-1.3, -0.2)) if "W" in geom else 0.0
        if "W" in geom and (case["k"] % 4 == 1 or (geom == "slit(L,W)" and (case["k"]//10) % 2 == 1)):
            W = float(q[0]*rng.uniform(1.1, 1.6))          # q < W: the reflected part of the window
        if W and np.any(q < W):
            rec.bucket("q<W")
        Lvec = np.full(npts, L)
        if geom == "slit(L,0)" and (case["k"]//10 + case["k"]) % 2 == 1:
            # slit lengths that differ from point to point (merged instrument settings), the longest at the first point
            Lvec = L*np.array([1.0, float(rng.uniform(0.5, 0.9)), float(rng.uniform(0.5, 0.9))])
            rec.bucket("slit:lengths-differ-per-point")
        width = min(x for x in (float(np.min(Lvec)), W) if x > 0)
        lo = float(np.min(np.abs(q - W))) if W and not np.any(q < W) else (1e-4*q0 if W else float(q[0]))
        hi = float(np.max(np.sqrt((q + W)**2 + L**2)))
        exact = np.array([exact_slit(f, qi, float(Li), W) for qi, Li in zip(q, Lvec)])
        monitor = {"slit(L,0)": "slit_length_converges", "slit(0,W)": "slit_width_converges",
                   "slit(L,W)": "slit_both_converges"}[geom]
        K = 1.0
        desc = {"length": Lvec if np.ptp(Lvec) > 0 else L, "width": W}
    h0 = width/float(rng.uniform(150, 400))
    include_q = not ((case["k"]//10) % 2 == 0 and geom in ("pinhole", "slit(L,0)"))
    rec.bucket("q_calc:contains-data-points" if include_q else "q_calc:without-data-points")
    errs = []
    errs_copy = []
    unsmeared = f(q)
    S = None
    for mult in (4, 2, 1):
        h = h0*mult
        n = int(math.ceil((hi - lo)/h)) + 8
        grid = lo - 3*h + h*np.arange(n + 6)
        if (case["k"]//7) % 3 == 1:
            # a calculation grid that is not equally spaced: refined threefold over part of the range (bound stated for
            # the coarse spacing h)
            a_, b_ = sorted(rng.uniform(lo, hi, 2))
            fine = np.arange(a_, b_, h/3.0)
            grid = np.unique(np.concatenate([grid, fine]))
            if mult == 1:
                rec.bucket("q_calc:partly-refined")
        elif (case["k"]//7) % 3 == 2 and lo - 3*h > 0:
            # geometric spacing with ratio chosen so that the largest step equals h
            r_ = 1.0 + h/(hi + 3*h)
            grid = (lo - 3*h)*r_**np.arange(int(math.log((hi + 6*h)/(lo - 3*h))/math.log(r_)) + 2)
            if mult == 1:
                rec.bucket("q_calc:geometric")
        if lo - 3*h <= 0 and geom != "pinhole":
            grid = grid[grid > 0.02*float(q[0])*1.01] if False else grid[grid > 0]
        if include_q:
            qc = np.unique(np.concatenate([q, grid]))
            # keep the calculation grid clear of near-duplicates of the data points
            d = np.min(np.abs(qc[:, None] - q[None, :]), axis=1)
            qc = qc[(d == 0) | (d > 0.25*h)]
        else:
            # a user grid that does not contain the data points (they fall anywhere inside its bins)
            qc = np.unique(grid)
        # the calculator is built from the caller's own arrays, which the caller then reuses for something else
        # before the first curve is smeared: the calculator stays the one that was built
        # every fourth case lists the data points in another order (scans appended one after another, files written from
        # high to low q): each value belongs to its own q
        perm = np.arange(npts)
        if (case["k"]//3) % 4 == 1:
            perm = np.array([[2, 0, 1], [2, 1, 0], [1, 2, 0]][case["k"] % 3])
            if mult == 1:
                rec.bucket("data-order:not-increasing")
        q_in = q[perm].copy()
        if geom == "pinhole":
            s_in = s[perm].copy()
            res = resolution.Pinhole1D(q_in, s_in, q_calc=qc)
            owned = [q_in, s_in]
        elif mult == 2:
            L_in = Lvec[perm].copy() if L else None
            W_in = np.full(npts, W) if W else None
            res = resolution.Slit1D(q_in, q_length=L_in, q_width=W_in, q_calc=qc)
            owned = [a_ for a_ in (q_in, L_in, W_in) if a_ is not None]
            rec.bucket("slit:per-point-arrays")
        else:
            L_in = Lvec[perm].copy() if (L and np.ptp(Lvec) > 0) else (L if L else None)
            res = resolution.Slit1D(q_in, q_length=L_in, q_width=W if W else None, q_calc=qc)
            owned = [q_in]
        for a_ in owned:
            a_ *= 2.9
            a_ += 0.0137
        rec.bucket("caller-arrays-reused-before-first-apply")
        theory = np.ascontiguousarray(f(res.q_calc), float)
        theory0 = theory.copy()
        got = res.apply(theory)
        inv_ = np.argsort(perm)
        errs.append(np.abs(np.asarray(got, float)[inv_] - exact))
        again = res.apply(theory)
        rec.check("input_unchanged_and_repeatable", bool(np.array_equal(theory, theory0) and np.array_equal(got, again)),
                  {"geometry": geom, "theory_changed": not bool(np.array_equal(theory, theory0)),
                   "second_result_differs": not bool(np.array_equal(got, again))})
        # a batch of curves through one calculator: the first result still holds its values after the next ones
        held = core.Held()
        held.keep("first curve smeared by this calculator", got)
        res.apply(2.0*f(res.q_calc) + 1.0)
        res.apply(np.ones(len(res.q_calc)))
        held.verify(rec, {"geometry": geom, "h_multiple": mult})
        # the calculator as it arrives elsewhere (copied, or pickled to a fit worker) is the same calculator
        how = ["copy", "deepcopy", "pickle"][(case["k"] + mult) % 3]
        res2 = copy.copy(res) if how == "copy" else copy.deepcopy(res) if how == "deepcopy" else pickle.loads(pickle.dumps(res))
        got2 = res2.apply(np.ascontiguousarray(f(res2.q_calc), float))
        errs_copy.append((how, np.abs(np.asarray(got2, float)[inv_] - exact)))
        rec.bucket("calculator:" + how)
        if S is None:
            # variation of I over the widest window
            xs = np.linspace(max(lo, 0.0), hi, 400)
            S = float(np.ptp(f(xs)))
    got = np.asarray(got, float)[np.argsort(perm)]          # finest-grid result in increasing-q order (used below)
    ok = True
    worst = 0.0
    for mult, e in zip((4, 2, 1), errs):
        bound = K*(h0*mult/width)*S
        worst = max(worst, float(np.max(e)/bound))
        ok &= bool(np.all(e <= bound))
    key = None
    if geom == "slit(L,W)" and not ok:
        # listed finding: the average over the width direction uses a fixed 61-point rule, so the error does
        # not shrink when the calculation grid is refined; only that signature is classified
        # (finest-grid result equals the 61-point average, over offsets k*W/30, of the exact length integrals)
        e4, e1 = float(np.max(errs[0])), float(np.max(errs[2]))
        if e1 > 0.5*e4:
            alt61 = np.array([np.mean([exact_slit(f, abs(qi + kk*W/30.0), L, 0.0) for kk in range(-30, 31)]) for qi in q])
            if bool(np.all(np.abs(got - alt61) <= K*(h0/width)*S)):
                key = "C04/slit-length-and-width-fixed-61-point-rule"
    if not ok and geom == "pinhole" and lo < 0:
        # listed finding: when some window reaches below zero the calculation grid has a hole |q| < 0.02 q_min, and
        # the two bins next to the hole are given the whole hole as their width; a row whose window ends near the
        # hole gets that extra weight.  Classified only if every error is within the Gaussian mass of the hole
        # region times the variation of I.
        cut_ = 0.02*float(np.min(q))
        e1 = errs[2]
        mass = np.array([0.5*(math.erf((cut_ + 2*h0 - qi)/(math.sqrt(2)*si)) - math.erf((-cut_ - 2*h0 - qi)/(math.sqrt(2)*si)))/0.98
                         for qi, si in zip(q, s)])
        if bool(np.all((e1 <= K*(h0/width)*S) | (e1 <= 1.5*mass*S))):
            key = "C04/pinhole-hole-around-zero-widens-adjacent-bins"
    if not ok and geom == "slit(0,W)" and np.any(q < W):
        # listed finding: the part of the window with |q+v| < 0.02 q_min is dropped (and the rest renormalised).
        # Only classify as that if the finest-grid result matches the integral with that part removed.
        from scipy.integrate import quad
        c = 0.02*float(np.min(q))
        alt = []
        for qi in q:
            if qi - W < c:
                # |q+v| runs over [c, q+W] once and over [c, W-q] a second time (reflected part)
                a1 = quad(lambda x: float(f(x)), c, qi + W, epsabs=1e-14, limit=400)[0]
                a2 = quad(lambda x: float(f(x)), c, W - qi, epsabs=1e-14, limit=400)[0] if W - qi > c else 0.0
                alt.append((a1 + a2)/((qi + W - c) + max(W - qi - c, 0.0)))
            else:
                alt.append(exact_slit(f, qi, 0.0, W))
        if bool(np.all(np.abs(got - np.array(alt)) <= K*(h0/width)*S)):
            key = "C04/slit-window-through-zero-truncated-at-0.02qmin"
    rec.check(monitor, ok, None if ok else {"geometry": geom, "function": fdesc, "q": q, "widths": desc, "h": h0,
                                           "errors_4h_2h_h": [e.tolist() for e in errs], "bound_at_h": K*(h0/width)*S,
                                           "exact": exact, "worst_err_over_bound": worst}, key=key)
    if ok:
        okc = True
        for mult, (how, e) in zip((4, 2, 1), errs_copy):
            okc &= bool(np.all(e <= K*(h0*mult/width)*S))
        rec.check("copied_calculator_converges", okc,
                  None if okc else {"geometry": geom, "function": fdesc, "q": q, "widths": desc, "h": h0,
                                    "copies": [h_ for h_, _ in errs_copy], "errors_4h_2h_h": [e.tolist() for _, e in errs_copy],
                                    "original_errors_4h_2h_h": [e.tolist() for e in errs], "bound_at_h": K*(h0/width)*S})
    smear = float(np.max(np.abs(exact - unsmeared)))
    rec.set_shape((geom, fam, round(math.log10(width/q0), 1), round(h0/width, 4)),
                  nontrivial=smear > 100*K*(h0/width)*S)
    rec.count("max_err_over_bound_x1000", int(1000*worst))
    if case["k"] < 6:
        rec.observe(geometry=geom, function=fdesc, q=q, widths=desc, h=h0, errors_4h_2h_h=[float(e.max()) for e in errs],
                    bound_at_h=K*(h0/width)*S, smearing_effect=smear)


class _D2:
    pass


E_RHO2 = (2.0 - 11.0*math.exp(-4.5))/(1.0 - math.exp(-4.5))


def run_2d(case, rec):
    from sasmodels import resolution2d
    rng = core.rng_for(case["seed"], PROP, case["k"])
    n = 8
    qmag = 10**rng.uniform(-2.3, -0.7, n)
    ang = np.concatenate([[0.0, np.pi/2, np.pi, 3*np.pi/2], rng.uniform(0, 2*np.pi, n - 4)])
    d = _D2()
    d.qx_data, d.qy_data = qmag*np.cos(ang), qmag*np.sin(ang)
    # pixels exactly on the axes (odd-sized detector centred on the beam): qx == 0 and qy == 0 exactly
    d.qx_data = np.where(np.abs(d.qx_data) < 1e-12*qmag, 0.0, d.qx_data)
    d.qy_data = np.where(np.abs(d.qy_data) < 1e-12*qmag, 0.0, d.qy_data)
    rec.bucket("pixel_on_axis")
    d.q_data = qmag
    sr = qmag*10**rng.uniform(-2, -0.7, n)
    st = qmag*10**rng.uniform(-2, -0.7, n)
    if case["k"] % 3 == 1:
        # pixels with a resolution in one direction only (the other width exactly zero)
        which = rng.integers(0, 3, n)
        sr = np.where(which == 1, 0.0, sr)
        st = np.where(which == 2, 0.0, st)
        rec.bucket("pixel_with_one_zero_width")
    d.dqx_data, d.dqy_data = sr.copy(), st.copy()
    if case["k"] % 2 == 1:
        # a data object whose coordinates were rewritten after it was made (unit conversion 1/nm -> 1/A, beam
        # centre correction): the calculator is built from the coordinates the object holds now
        from sasmodels import data as sdata
        real = sdata.Data2D(x=10.0*d.qx_data, y=10.0*d.qy_data, z=np.zeros(n), dx=10.0*sr, dy=10.0*st)
        real.qx_data = real.qx_data/10.0
        real.qy_data = real.qy_data/10.0
        real.dqx_data = sr.copy()
        real.dqy_data = st.copy()
        d.qx_data, d.qy_data = np.array(real.qx_data), np.array(real.qy_data)
        d = real
        rec.bucket("coordinates_rewritten_after_construction")
    a, b, c, dd = rng.uniform(-2, 2, 4)
    f = lambda x, y: a*x*x + b*x*y + c*y*y + dd
    rec.bucket("geom:2d")
    for acc in ("low", "med", "high", "xhigh"):
        res = resolution2d.Pinhole2D(data=d, index=None, nsigma=3.0, accuracy=acc)
        theory = np.ascontiguousarray(f(np.asarray(res.q_calc[0]), np.asarray(res.q_calc[1])), float)
        theory0 = theory.copy()
        got = res.apply(theory)
        again = res.apply(theory)
        rec.check("input_unchanged_and_repeatable", bool(np.array_equal(theory, theory0) and np.array_equal(got, again)),
                  {"geometry": "2d", "accuracy": acc, "theory_changed": not bool(np.array_equal(theory, theory0)),
                   "second_result_differs": not bool(np.array_equal(got, again))})
        # exact: f(q0) + 1/2 (H_rr sr^2 + H_tt st^2) E[rho^2]/2 in the frame aligned with q
        phi = np.arctan2(d.qy_data, d.qx_data)
        cr, sn = np.cos(phi), np.sin(phi)
        Hrr = 2*(a*cr*cr + b*cr*sn + c*sn*sn)
        Htt = 2*(a*sn*sn - b*cr*sn + c*cr*cr)
        inc_exact = 0.5*(Hrr*sr**2 + Htt*st**2)*E_RHO2/2.0
        inc_got = got - f(d.qx_data, d.qy_data)
        scale = 0.5*(np.abs(Hrr)*sr**2 + np.abs(Htt)*st**2)*E_RHO2/2.0
        tol = 0.35/res.nr**2*scale + 1e-12*np.abs(f(d.qx_data, d.qy_data))
        ok = bool(np.all(np.abs(inc_got - inc_exact) <= tol))
        rec.check("pinhole2d_increment", ok,
                  None if ok else {"accuracy": acc, "nr": res.nr, "quadratic": [a, b, c, dd], "qx": d.qx_data,
                                   "qy": d.qy_data, "sigma_r": sr, "sigma_t": st, "increment_got": inc_got,
                                   "increment_exact": inc_exact, "tolerance": tol})
        rec.bucket("acc:" + acc)
        rec.set_shape(("2d", acc, [round(x, 1) for x in (a, b, c)], case["k"]), nontrivial=bool(np.any(scale > 0)))
    if case["k"] < 10:
        rec.observe(quadratic=[a, b, c, dd], increment_exact=inc_exact[:3], increment_got=inc_got[:3])


def run_dm(case, rec):
    """The route through a data object (DirectModel, the Iq helper) with the automatic calculation grid: a measured
    curve whose widths contain exact zeros next to positive widths (a merged file with a missing dq, an added q point).
    Points with a width converge to the pinhole integral as the data spacing is refined; points without are unsmeared."""
    from sasmodels import direct_model, data as sdata, core as sascore
    k = case["k"]
    rng = core.rng_for(case["seed"], PROP, "dm", k)
    rg, scale = float(rng.uniform(20, 60)), float(rng.uniform(0.5, 3))
    f = lambda x: scale*np.exp(-(np.asarray(x, float)*rg)**2/3.0)
    sigma = float(rng.uniform(0.25, 0.6))/rg
    qlo, qhi = 5.0*sigma, 5.0*sigma + float(rng.uniform(2.5, 4.0))/rg
    h0 = sigma/float(rng.uniform(10, 20))
    via = ["DirectModel", "Iq"][k % 2]
    model = sascore.load_model("guinier")
    errs, bounds = [], []
    probe = np.linspace(qlo + 3.2*sigma, qhi - 3.2*sigma, 5)
    okz = True
    for mult in (4, 2, 1):
        h = h0*mult
        q = qlo + h*np.arange(int((qhi - qlo)/h) + 1)
        dq = np.full(len(q), sigma)
        if k % 4 >= 2:
            dq = sigma*(0.6 + 0.8*(q - qlo)/(qhi - qlo))       # widths growing with q (per-point resolution)
        zero = np.zeros(len(q), bool)
        zero[rng.choice(np.arange(3, len(q) - 3), 3, replace=False)] = True        # (never an end point)
        # probes: the data points nearest to five fixed positions, none of them a zero-width point
        pidx = sorted({int(np.argmin(np.abs(q - x_) + 1e9*zero)) for x_ in probe} | {0, len(q) - 1})   # and both end points
        dq[zero] = 0.0
        order = np.arange(len(q))[::-1] if k % 4 == 3 else np.arange(len(q))      # a scan written in decreasing q
        if k % 4 == 3 and mult == 1:
            rec.bucket("route:data-listed-in-decreasing-q")
        if via == "DirectModel":
            d = sdata.empty_data1D(q[order].copy(), resolution=0.0)
            d.dx = dq[order].copy()
            got = np.asarray(direct_model.DirectModel(d, model)(rg=rg, scale=scale, background=0.0), float)
        else:
            # "no slit" is spelled None or 0 (scalar or per point) by callers of the helper: the widths given as dq apply
            noslit = [{}, {"ql": 0, "qw": 0}, {"ql": None, "qw": 0.0}, {"ql": np.zeros(len(q))}][(k//2) % 4]
            rec.bucket("Iq-helper:no-slit-spelled-" + ("-".join("%s=%s" % (a_, "zeros" if isinstance(b_, np.ndarray) else b_)
                                                                 for a_, b_ in sorted(noslit.items())) or "omitted"))
            got = np.asarray(direct_model.Iq("guinier", q[order].copy(), dq=dq[order].copy(), rg=rg, scale=scale, background=0.0,
                                             **noslit), float)
        got = got[np.argsort(order)]                  # back to increasing q for the comparison
        exact = np.array([exact_pinhole(f, float(q[j]), float(dq[j])) for j in pidx])
        errs.append(np.abs(got[pidx] - exact))
        # bound per probe: 0.04 x step over width x the variation of I over that probe's own window (the automatic grid has
        # the data's own spacing; over 96 sampled cases the unchanged code stays below a fifth of this bound)
        bounds.append(np.array([0.04*(h/float(dq[j]))*float(np.ptp(f(np.linspace(max(q[j] - 2.5*dq[j], 0.0), q[j] + 3.0*dq[j], 200))))
                                for j in pidx]))
        okz &= bool(np.all(np.abs(got[zero] - f(q[zero])) <= 1e-6*np.abs(f(q[zero]))))
    ok = all(bool(np.all(e <= b)) for e, b in zip(errs, bounds))
    smear = float(np.max(np.abs(exact - f(q[pidx]))))
    rec.check("pinhole_converges", ok,
              None if ok else {"geometry": "pinhole through " + via + ", automatic grid, widths with exact zeros among them",
                               "rg": rg, "sigma": sigma, "h": h0, "errors_4h_2h_h": [e.tolist() for e in errs], "bounds": bounds,
                               "smearing_effect_at_probes": smear})
    rec.check("zero_width_points_unsmeared", okz, {"via": via, "rg": rg, "sigma": sigma})
    rec.bucket("route:data-object-with-some-zero-widths", "geom:pinhole")
    rec.count("dm_max_err_over_bound_x1000", int(1000*max(float(np.max(e/b)) for e, b in zip(errs, bounds))))
    rec.set_shape(("dm", via, round(rg), round(sigma*rg, 2)), nontrivial=smear > 3*float(np.max(bounds[-1])))


def run_case(case, rec):
    if case["geom"] == "dm":
        return run_dm(case, rec)
    if case["geom"] == "2d":
        run_2d(case, rec)
    else:
        run_1d(case, rec)


def classify(case, v):
    return v.get("key")


LEVEL_TEXT = ("The real smearing classes are applied to smooth analytic intensities on uniform calculation grids of spacing "
              "h, 2h, 4h (h << width) and compared with adaptive quadrature of the documented integrals; the error must "
              "stay below K (h/width) S at every refinement; 2-D smearing increments are compared with the closed form "
              "for quadratic forms at every accuracy level.  Exploration over generated functions and geometries.")
LEVEL_NOTE = "Trusts scipy quad/dblquad as exact; K and the 2-D bound are stated constants (see assumptions)."
TECHNIQUE = "reference-model monitor (adaptive quadrature / closed form) with stated error bound proportional to grid spacing"
