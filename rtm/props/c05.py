"""
C05 - orientation and angular jitter follow the documented rotation convention.

2-D kernels of the oriented models are compared with an independent numpy
implementation of R = Rz(phi)Ry(theta)Rz(psi)Rx(dphi)Ry(dtheta)Rz(dpsi), the
raw library's particle-frame functions and the |cos(dtheta)|-weighted jitter
mesh; plus metamorphic monitors on the real kernels alone.
"""
from __future__ import annotations

import math

import numpy as np

from rtm import core, sas

PROP = "C05"
LEVEL = "exploration"
RULE = ("21 oriented models x view angles over the full range (including theta = 0, 90, 180, |angle| near 360) x jitter "
        "meshes in 1..3 angles with any distribution (widths 1..40 degrees) x combined size dispersity (enough dispersed "
        "sizes that an angle loses its loop slot) x (qx,qy) in all quadrants and on the axes; unoriented models: 2-D vs "
        "1-D at |q|; 1-D: orientation parameters inert.  Distinct: hash of (model, angle class, jitter dims/types, size "
        "dims).  Non-trivial: a view angle is non-zero or a jitter mesh has more than one point.")
ASSUMPTIONS = ["raw library Iqac/Iqabc is the particle-frame intensity; documented R and |cos(dtheta)| weight",
               "rtol 1e-8 (the kernel forms qab as sqrt(|q|^2-qc^2))"]
REQUIRED_MONITORS = ["matches_documented_rotation", "rotation_invariance", "inversion_symmetry", "unoriented_depends_on_absq",
                     "orientation_inert_in_1d", "over_budget_refused_or_exact"]
REQUIRED_BUCKETS = {"quick": ["jitter:0", "jitter:1", "jitter:2", "jitter:3", "size_pd:0", "size_pd:>=2",
                              "angle:theta0", "angle:theta90", "angle:theta180", "angle:near360", "asymmetric",
                              "symmetric", "lane:asan", "angle_without_loop_slot",
                              "mesh>100:size-innermost", "jitter:one-point-with-width", "sequence:one-angle-changed", "over-budget:refused", "entry:sasview-shared-disperser-object", "entry:sasview-tabulated-jitter", "smeared-2d:pixel-on-axis"]}
REQUIRED_BUCKETS["thorough"] = REQUIRED_BUCKETS["quick"]


def worker_init(tier, seed):
    sas.install_poison()


def gen_cases(tier, seed):
    n = 12 if tier == "quick" else 120
    cases = []
    om = sas.oriented_models()
    for m in om:
        for k in range(n):
            cases.append({"id": "%s/%03d" % (m, k), "kind": "oriented", "model": m, "k": k, "seed": seed, "group": m,
                          "lane": "plain"})
    for m in (om[:4] if tier == "quick" else om):
        for k in (3, 7):
            cases.append({"id": "asan/%s/%d" % (m, k), "kind": "oriented", "model": m, "k": k, "seed": seed + 1,
                          "group": "asan-" + m, "lane": "asan", "cost": 4})
    un = [m for m in sas.compiled_models() if m not in om]
    for m in un:
        cases.append({"id": "unoriented/" + m, "kind": "unoriented", "model": m, "seed": seed, "group": "u-" + m, "lane": "plain"})
    return cases


SPECIAL = [0.0, 90.0, 180.0, -90.0, 270.0, 355.0, -350.0, 45.0]


def run_oriented(case, rec):
    from sasmodels import direct_model
    name = case["model"]
    i = sas.info(name)
    k = case["k"]
    rng = core.rng_for(case["seed"], PROP, name, k)
    pars = sas.base_pars(i, case["seed"]*31 + k)
    angles = [p.name for p in i.parameters.orientation_parameters]
    # view angles
    cls = k % 6
    for a in angles:
        lo, hi = i.parameters[a].limits
        v = float(rng.uniform(-180, 180))
        if cls == 0 and a == "theta":
            v = 0.0
        elif cls == 1 and a == "theta":
            v = 90.0
        elif cls == 2 and a == "theta":
            v = 180.0
        elif cls == 3:
            v = float(rng.choice([352.0, -355.0, 340.0, -345.0]))
        elif cls == 4:
            v = float(rng.choice(SPECIAL))
        pars[a] = min(max(v, lo), hi)
    rec.bucket({0: "angle:theta0", 1: "angle:theta90", 2: "angle:theta180", 3: "angle:near360"}.get(cls, "angle:generic"))
    rec.bucket("asymmetric" if i.parameters.is_asymmetric else "symmetric")
    # jitter
    nj = [0, 1, 2, 3, 1, 2][k % 6] if len(angles) == 3 else [0, 1, 2, 1, 2, 2][k % 6]
    jit = list(rng.permutation(angles))[:nj]
    for a in jit:
        dist = ["gaussian", "uniform", "rectangle", "boltzmann"][int(rng.integers(4))]
        sas.add_pd(pars, i.parameters[a], dist, int(rng.integers(2, 6)), float(rng.uniform(1, 40)),
                   float(rng.uniform(1.0, 1.7 if dist == "rectangle" else 3.0)))
    if jit and k % 7 == 3:
        # free rotation about one axis: a uniform distribution that goes all the way round (+-180 degrees), or a gaussian
        # whose tails reach that far
        full = [("uniform", 180.0, 1.0), ("gaussian", 65.0, 3.0), ("rectangle", 110.0, 1.7)][(k//7) % 3]
        sas.add_pd(pars, i.parameters[jit[0]], full[0], int(rng.integers(3, 7)), full[1], full[2])
        rec.bucket("jitter:whole-turn")
    if jit and k % 5 == 2:
        # a one-point jitter distribution with a non-zero width is the single jitter angle 0
        pars[jit[0] + "_pd_n"] = 1
        rec.bucket("jitter:one-point-with-width")
    rec.bucket("jitter:%d" % nj)
    # size dispersity: sometimes so many dimensions that an angle does not get a loop slot
    sizes = [p for p in sas.usable_pd(i, pars, "2d") if p.type == "volume"]
    rng.shuffle(sizes)
    ns = [0, 1, 2, 3, 0, 2][(k // 2) % 6]
    ns = min(ns, len(sizes), max(0, i.parameters.max_pd - nj))
    # more distributions than the kernel has loops for: jitter on all three angles plus three sizes.  Such a
    # request is either refused or evaluated as the average over the whole requested mesh.
    over = k % 12 == 9 and nj == 3 and len(sizes) >= 3 and pars.get(jit[0] + "_pd_n", 0) > 1
    if over:
        ns = i.parameters.max_pd - nj + 1
    for p in sizes[:ns]:
        lo, hi = p.limits
        v = pars[p.name]
        room = min(abs(v - lo), abs(hi - v))/abs(v)
        w = min(float(rng.uniform(0.05, 0.2)), 0.9*room/2.0)
        if w > 0:
            sas.add_pd(pars, p, ["gaussian", "schulz", "lognormal"][int(rng.integers(3))], int(rng.integers(2, 4)), w, 2.0)
    # a long size distribution as the innermost loop of a mesh with more than 100 points: the compiled kernel is
    # re-entered every 100 points, i.e. in the middle of the size loop with the jitter angles unchanged
    if k % 4 == 3 and sizes and nj >= 1 and nj + max(ns, 1) <= i.parameters.max_pd:
        p = sizes[0]
        lo, hi = p.limits
        v = pars[p.name]
        room = min(abs(v - lo), abs(hi - v))/abs(v)
        w = min(float(rng.uniform(0.05, 0.2)), 0.9*room/2.0)
        if w > 0:
            sas.add_pd(pars, p, "gaussian", int(rng.choice([27, 35, 41, 53])), w, 2.0)
            for a in jit:
                pars[a + "_pd_n"] = max(int(pars[a + "_pd_n"]), 3)
            ns = max(ns, 1)
            rec.bucket("mesh>100:size-innermost")
    rec.bucket("size_pd:0" if ns == 0 else "size_pd:>=2" if ns >= 2 else "size_pd:1")
    qx, qy = sas.q_points_2d(i, pars, 6, rng)
    qx[0], qy[0] = abs(qx[0]) + 1e-4, 0.0        # on the axes
    qx[1], qy[1] = 0.0, -abs(qy[1]) - 1e-4
    model = sas.build(name)
    kernel = model.make_kernel([qx, qy])
    mesh = direct_model.get_mesh(i, pars, dim="2d")
    lengths = [len(m[1]) for m in mesh[2:2 + i.parameters.npars]]
    nactive = sum(1 for n_ in lengths if n_ > 1)
    # the jitter angles of a distribution are offsets from the view angle, centred on zero and symmetric for the symmetric
    # distribution types, whatever range the view angle itself is declared over
    names_ = [q_.name for q_ in i.parameters.call_parameters]
    for a in jit:
        col = mesh[names_.index(a)]
        pts_ = np.asarray(col[1], float)
        n_req = int(pars[a + "_pd_n"])
        if n_req >= 2 and float(np.max(np.abs(pts_))) < 300 if len(pts_) else True:
            sym = len(pts_) == n_req and bool(np.all(np.abs(pts_ + pts_[::-1]) <= 1e-9*max(1.0, float(np.max(np.abs(pts_))))))
            rec.check("jitter_mesh_symmetric_about_zero", sym,
                      {"model": name, "angle": a, "view_angle": pars[a], "requested_points": n_req, "distribution": pars[a + "_pd_type"],
                       "width": pars[a + "_pd"], "jitter_points": pts_})
    try:
        I = np.asarray(direct_model.call_kernel(kernel, dict(pars)), float)
    except ValueError as exc:
        if nactive > i.parameters.max_pd:
            rec.bucket("over-budget:refused")
            rec.check("over_budget_refused_or_exact", True)
            rec.set_shape((name, cls, "over-budget", nactive), True)
            kernel.release()
            return
        raise
    if nactive > i.parameters.max_pd:
        rec.bucket("over-budget:evaluated")
    # does every angle own a loop slot?  (only the max_pd longest distributions are looped over)
    order = np.argsort(lengths)[::-1][:i.parameters.max_pd]
    names = [p.name for p in i.parameters.call_parameters[2:2 + i.parameters.npars]]
    looped = {names[j] for j in order}
    if any(a not in looped for a in angles):
        rec.bucket("angle_without_loop_slot")
    oracle = sas.Oracle(i)
    ref, ev = oracle.intensity(mesh, (qx, qy), "2d", 0.0)
    # scale of the pattern: value near q -> 0
    I0 = float(np.max(np.abs(ref - pars.get("background", 0))))
    ctx = {"model": name, "pars": pars, "qx": qx, "qy": qy, "mesh_points": ev["n"], "lengths": lengths}
    ok = core.close(I, ref, 1e-8, 1e-10*I0)
    rec.check("matches_documented_rotation", ok,
              None if ok else dict(ctx, observed=I, expected=ref, max_rel_err=core.maxrel(I, ref, 1e-10*I0)))
    if nactive > i.parameters.max_pd:
        rec.check("over_budget_refused_or_exact", ok,
                  None if ok else dict(ctx, note="%d distributions with more than one point, %d loops; not refused"
                                       % (nactive, i.parameters.max_pd), observed=I, expected=ref))
    rec.check("no_stale_result", not sas.has_poison(I), ctx)
    # (0) the same model again with exactly one view angle changed (psi only, theta only, phi only): nothing may
    # be carried over from the previous evaluation
    for a in angles:
        p1 = dict(pars)
        p1[a] = pars[a] + float(rng.uniform(20, 70))
        lo_a, hi_a = i.parameters[a].limits
        if p1[a] > hi_a:
            p1[a] = pars[a] - float(rng.uniform(20, 70))
        I1 = np.asarray(direct_model.call_kernel(kernel, dict(p1)), float)
        mesh1 = direct_model.get_mesh(i, p1, dim="2d")
        ref1, _ = oracle.intensity(mesh1, (qx, qy), "2d", 0.0)
        ok1 = core.close(I1, ref1, 1e-8, 1e-10*I0)
        rec.check("matches_documented_rotation", ok1,
                  None if ok1 else dict(ctx, note="second evaluation with only %s changed" % a, changed={a: p1[a]},
                                        observed=I1, expected=ref1, max_rel_err=core.maxrel(I1, ref1, 1e-10*I0)))
        rec.bucket("sequence:one-angle-changed")
    # and back to the original request
    Iagain = np.asarray(direct_model.call_kernel(kernel, dict(pars)), float)
    rec.check("matches_documented_rotation", bool(np.array_equal(Iagain, I)),
              dict(ctx, note="original request repeated after other view angles", first=I, again=Iagain))
    # (0b) the SasView-style object given ONE disperser object for two jitter angles (a script that reuses its object),
    # then different settings for the two: each angle is averaged over its own mesh
    if k % 6 == 1 and len(angles) >= 2 and not over:
        from sasmodels import sasview_model, weights as sasweights
        m_ = sasview_model._make_standard_model(name)()
        for kk, vv in pars.items():
            if not kk.endswith(("_pd", "_pd_n", "_pd_nsigma", "_pd_type")):
                m_.setParam(kk, vv)
        for p_ in i.parameters.call_parameters:
            if p_.polydisperse and p_.name + "_pd" in pars and p_.name not in angles:
                m_.setParam(p_.name + ".width", pars[p_.name + "_pd"])
                m_.setParam(p_.name + ".npts", pars[p_.name + "_pd_n"])
                m_.setParam(p_.name + ".nsigmas", pars[p_.name + "_pd_nsigma"])
                m_.setParam(p_.name + ".type", pars[p_.name + "_pd_type"])
        shared = sasweights.GaussianDispersion()
        a1, a2 = angles[0], angles[1]
        m_.set_dispersion(a1, shared)
        m_.set_dispersion(a2, shared)
        w1, n1 = float(rng.uniform(5, 25)), int(rng.integers(3, 6))
        m_.setParam(a1 + ".width", w1)
        m_.setParam(a1 + ".npts", n1)
        m_.setParam(a1 + ".nsigmas", 2.0)
        m_.setParam(a2 + ".width", 0.0)          # set after, and different from, the first angle's settings
        m_.setParam(a2 + ".npts", 1)
        m_.cutoff = 0.0
        if k % 12 == 7:
            # the same object is first used for 1-D data (the page shows both views): once successfully, once with a
            # mistyped distribution name, which is refused; the settings are then as they were
            qabs_ = np.hypot(qx, qy)
            try:
                m_.evalDistribution(qabs_.copy())
                m_.dispersion[a1]["type"] = "gausian"
                try:
                    m_.evalDistribution(qabs_.copy())
                    rec.count("mistyped_distribution_name_accepted")
                except Exception:
                    rec.bucket("entry:sasview-after-refused-1d-evaluation")
            finally:
                m_.dispersion[a1]["type"] = "gaussian"
        Isv = np.asarray(m_.evalDistribution([qx.copy(), qy.copy()]), float)
        ps = {kk: vv for kk, vv in pars.items() if not any(kk == a + s_ for a in angles for s_ in ("_pd", "_pd_n", "_pd_nsigma", "_pd_type"))}
        ps.update({a1 + "_pd": w1, a1 + "_pd_n": n1, a1 + "_pd_nsigma": 2.0, a1 + "_pd_type": "gaussian"})
        refs, _ = oracle.intensity(direct_model.get_mesh(i, ps, dim="2d"), (qx, qy), "2d", 0.0)
        oks = core.close(Isv, refs, 1e-8, 1e-10*I0)
        rec.check("matches_documented_rotation", oks,
                  None if oks else dict(ctx, entry="SasviewModel, one disperser object handed to set_dispersion for %s and %s, then %s.width=%g, %s.width=0"
                                        % (a1, a2, a1, w1, a2), observed=Isv, expected=refs, max_rel_err=core.maxrel(Isv, refs, 1e-10*I0)))
        rec.bucket("entry:sasview-shared-disperser-object")
    # (0c) a tabulated jitter distribution (values and weights read from a file) handed to the SasView-style object
    if k % 6 == 4 and angles and not over:
        from sasmodels import sasview_model, weights as sasweights
        m_ = sasview_model._make_standard_model(name)()
        for kk, vv in pars.items():
            if not kk.endswith(("_pd", "_pd_n", "_pd_nsigma", "_pd_type")):
                m_.setParam(kk, vv)
        a1 = angles[int(rng.integers(len(angles)))]
        tv = np.sort(rng.uniform(-35, 35, int(rng.integers(3, 7))))
        tw = rng.uniform(0.2, 3.0, len(tv))
        tab = sasweights.ArrayDispersion()
        tab.set_weights(tv.copy(), tw.copy())
        m_.set_dispersion(a1, tab)
        m_.cutoff = 0.0
        Itab = np.asarray(m_.evalDistribution([qx.copy(), qy.copy()]), float)
        ps = {kk: vv for kk, vv in pars.items() if not kk.endswith(("_pd", "_pd_n", "_pd_nsigma", "_pd_type"))}
        mesh_t = list(direct_model.get_mesh(i, ps, dim="2d"))
        ia = [q_.name for q_ in i.parameters.call_parameters].index(a1)
        mesh_t[ia] = (ps[a1], tv, tw)
        reft, _ = oracle.intensity(mesh_t, (qx, qy), "2d", 0.0)
        I0t = float(np.max(np.abs(reft - ps.get("background", 0))))
        okt = core.close(Itab, reft, 1e-8, 1e-10*I0t)
        rec.check("matches_documented_rotation", okt,
                  None if okt else dict(ctx, entry="SasviewModel with a tabulated distribution of %s jitter angles" % a1, table=[tv, tw],
                                        observed=Itab, expected=reft, max_rel_err=core.maxrel(Itab, reft, 1e-10*I0t)))
        rec.bucket("entry:sasview-tabulated-jitter")
    # (i) rotate the detector point and phi by the same angle
    delta = float(rng.uniform(-170, 170))
    c, s = math.cos(math.radians(delta)), math.sin(math.radians(delta))
    qx2, qy2 = c*qx - s*qy, s*qx + c*qy
    p2 = dict(pars)
    p2["phi"] = pars["phi"] + delta
    k2 = model.make_kernel([qx2, qy2])
    I2 = np.asarray(direct_model.call_kernel(k2, p2), float)
    rec.check("rotation_invariance", core.close(I2, I, 1e-8, 1e-10*I0),
              dict(ctx, delta=delta, rotated=I2, original=I, max_rel_err=core.maxrel(I2, I, 1e-10*I0)))
    # (i-b) the same for resolution-smeared 2-D data: the pixels (one of them exactly on the qy axis) and phi turned by exactly
    # 90 degrees; the widths are radial / tangential, so the smeared pattern turns with them
    if k % 6 == 3 and not over:
        from sasmodels import data as sdata
        qa_ = np.hypot(qx, qy)
        px, py = qx.copy(), qy.copy()
        px[0], py[0] = 0.0, float(qa_[0])
        dq_ = 0.04*np.hypot(px, py)
        dA = sdata.Data2D(x=px.copy(), y=py.copy(), dx=dq_.copy(), dy=dq_.copy())
        dB = sdata.Data2D(x=-py.copy(), y=px.copy(), dx=dq_.copy(), dy=dq_.copy())
        ps_ = {kk: vv for kk, vv in pars.items()}
        IA = np.asarray(direct_model.DirectModel(dA, model, cutoff=0.0)(**ps_), float)
        IB = np.asarray(direct_model.DirectModel(dB, model, cutoff=0.0)(**dict(ps_, phi=ps_["phi"] + 90.0)), float)
        oks_ = len(IA) == len(IB) == len(px) and core.close(IB, IA, 1e-7, 1e-9*I0)
        rec.check("rotation_invariance", oks_,
                  None if oks_ else dict(ctx, note="resolution-smeared 2-D data, pixels and phi turned by 90 degrees", pixels_x=px, pixels_y=py,
                                         smeared=IA, smeared_after_turn=IB))
        rec.bucket("smeared-2d:pixel-on-axis")
    # (ii) inversion
    k3 = model.make_kernel([-qx, -qy])
    I3 = np.asarray(direct_model.call_kernel(k3, dict(pars)), float)
    rec.check("inversion_symmetry", core.close(I3, I, 1e-9, 1e-11*I0), dict(ctx, inverted=I3, original=I))
    # (iv) 1-D: orientation parameters and their dispersity are inert
    q1 = np.hypot(qx, qy)[:3]
    k1 = model.make_kernel([q1])
    pa = {kk: v for kk, v in pars.items() if not any(kk == a or kk.startswith(a + "_pd") for a in angles)}
    Ia = np.asarray(direct_model.call_kernel(k1, pa), float)
    Ib = np.asarray(direct_model.call_kernel(k1, dict(pars)), float)
    rec.check("orientation_inert_in_1d", bool(np.array_equal(Ia, Ib)), dict(ctx, without_angles=Ia, with_angles=Ib))
    rec.set_shape((name, cls, sorted((a, pars[a + "_pd_type"]) for a in jit), ns),
                  nontrivial=any(pars[a] != 0 for a in angles) or nj > 0)
    rec.bucket("lane:" + case.get("lane", "plain"))
    if k < 2:
        rec.observe(model=name, angles={a: pars[a] for a in angles}, jitter=jit, I=I, expected=ref)
    for kk in (kernel, k2, k3, k1):
        kk.release()


def run_unoriented(case, rec):
    from sasmodels import direct_model
    name = case["model"]
    i = sas.info(name)
    rng = core.rng_for(case["seed"], PROP, name)
    pars = sas.base_pars(i, case["seed"] + 3)
    cand = sas.usable_pd(i, pars, "2d")
    for p in cand[:1]:
        lo, hi = p.limits
        v = pars[p.name]
        room = min(abs(v - lo), abs(hi - v))/abs(v)
        w = min(0.15, 0.9*room/2.0)
        if w > 0:
            sas.add_pd(pars, p, "gaussian", 4, w, 2.0)
    if sas.raw(i).has_iqxy:
        rec.skip("model defines its own Iqxy (not a function of |q|)")
        rec.set_shape((name, "iqxy"), False)
        return
    qx, qy = sas.q_points_2d(i, pars, 6, rng)
    model = sas.build(name)
    I2 = np.asarray(direct_model.call_kernel(model.make_kernel([qx, qy]), dict(pars)), float)
    qa = np.hypot(qx, qy)
    I1 = np.asarray(direct_model.call_kernel(model.make_kernel([qa]), dict(pars)), float)
    # |q| formed by the kernel may differ from numpy's by an ulp; sharp peaks amplify that, so the
    # tolerance is the observed response of the 1-D kernel to a 2-ulp change of q
    Ip = np.asarray(direct_model.call_kernel(model.make_kernel([qa*(1 + 4.5e-16)]), dict(pars)), float)
    Im = np.asarray(direct_model.call_kernel(model.make_kernel([qa*(1 - 4.5e-16)]), dict(pars)), float)
    sc = float(np.max(np.abs(I1)))
    tol = np.abs(Ip - I1) + np.abs(Im - I1) + 1e-12*np.abs(I1) + 1e-14*sc
    fin = np.isfinite(I1) & np.isfinite(I2)
    same_nan = bool(np.array_equal(np.isnan(I1), np.isnan(I2)))
    rec.check("unoriented_depends_on_absq", same_nan and bool(np.all(np.abs(I2 - I1)[fin] <= tol[fin])),
              {"model": name, "pars": pars, "qx": qx, "qy": qy, "two_d": I2, "one_d_at_absq": I1})
    rec.set_shape((name, "unoriented"), True)


def run_case(case, rec):
    sas.install_poison()
    if case["kind"] == "oriented":
        run_oriented(case, rec)
    else:
        run_unoriented(case, rec)


LEVEL_TEXT = ("2-D kernels of all oriented models are executed over view angles, jitter meshes (1-3 angles, any distribution) "
              "and combined size dispersity and compared with an independent implementation of the documented rotation "
              "applied to the raw library's particle-frame functions; rotation/inversion/|q|-only/1-D-inertness "
              "metamorphic monitors run on the real kernels alone; reduced copy under ASan/UBSan.  Exploration.")
LEVEL_NOTE = "Trusts the raw-library wrapper and the harness's rotation matrices (standard right-handed Rx, Ry, Rz)."
TECHNIQUE = "reference-model monitor (documented rotation + raw particle-frame functions) + metamorphic monitors + ASan/UBSan lane"
