"""Compiler stand-in for the C15 check: waits a moment before running the real compiler, so that builds started together
by several processes all have written their source files before any of them is compiled."""
import os
import subprocess
import sys
import time

time.sleep(float(os.environ.get("RTM_C15_CC_DELAY", "0.4")))
sys.exit(subprocess.call([os.environ.get("RTM_C15_REAL_CC", "cc")] + sys.argv[1:]))
