"""
Participant of the C18 check: one interpreter that (optionally after building and using another model itself)
forks worker processes which all load the same not-yet-compiled model at the same time (parallel fitting on
Linux: multiprocessing's fork start method).

    _c18_fork.py <model> <nworkers> <prebuild: none|guinier|...>
"""
import json
import os
import sys
import time

repo = os.environ.get("VERIF_REPO", "/repo")
sys.path.insert(0, repo)
model_name, nworkers, prebuild = sys.argv[1], int(sys.argv[2]), sys.argv[3]
ctrl = os.environ["RTM_C18_CTRL"]

import numpy as np  # noqa: E402
from sasmodels import core, direct_model  # noqa: E402

q = np.array([0.01, 0.05, 0.2])
out = {"pid": os.getpid(), "workers": {}}
builder = None
try:
    if prebuild.startswith("thread:"):
        # another thread of this interpreter is in the middle of building a model (the scripted compiler holds it
        # there) at the moment the workers are forked
        import threading
        box = {}

        def build():
            try:
                m0 = core.load_model(prebuild.split(":", 1)[1])
                box["Iq"] = [float(v) for v in direct_model.call_kernel(m0.make_kernel([q]), {})]
            except BaseException as exc:  # noqa
                box["error"] = repr(exc)[:500]
        builder = threading.Thread(target=build)
        builder.start()
        tag0 = os.environ.get("RTM_C18_TAG", "p")
        t0 = time.monotonic()
        while not os.path.exists(os.path.join(ctrl, tag0 + ".at.0")) and builder.is_alive() and time.monotonic() - t0 < 60:
            time.sleep(0.001)
        out["forked_while_thread_building"] = builder.is_alive()
    elif prebuild != "none":
        m0 = core.load_model(prebuild)
        out["parent_Iq"] = [float(v) for v in direct_model.call_kernel(m0.make_kernel([q]), {})]
    out["parent_ok"] = True
except BaseException as exc:  # noqa
    out["parent_ok"] = False
    out["parent_error"] = repr(exc)[:500]

pids = {}
for w in range(nworkers):
    tag = "W%02d" % w
    pid = os.fork()
    if pid == 0:
        res = {"tag": tag, "pid": os.getpid()}
        try:
            os.environ["RTM_C18_TAG"] = os.environ.get("RTM_C18_TAG", "p") + tag
            open(os.path.join(ctrl, tag + ".ready"), "w").close()
            t0 = time.monotonic()
            while not os.path.exists(os.path.join(ctrl, "release")) and time.monotonic() - t0 < 60:
                time.sleep(0.0002)
            model = core.load_model(model_name)
            pars = {"radius": 40.0, "radius_pd": 0.1, "radius_pd_n": 5} if model_name == "sphere" else {}
            res["Iq"] = [float(v) for v in direct_model.call_kernel(model.make_kernel([q]), pars)]
            res["ok"] = True
        except BaseException as exc:  # noqa
            import traceback
            res["ok"] = False
            res["error"] = repr(exc)[:500]
            res["tb"] = traceback.format_exc()[-1200:]
        with open(os.path.join(ctrl, tag + ".result.tmp"), "w") as f:
            json.dump(res, f)
        os.replace(os.path.join(ctrl, tag + ".result.tmp"), os.path.join(ctrl, tag + ".result"))
        os._exit(0)
    pids[tag] = pid
t0 = time.monotonic()
while not all(os.path.exists(os.path.join(ctrl, t + ".ready")) for t in pids) and time.monotonic() - t0 < 60:
    time.sleep(0.001)
open(os.path.join(ctrl, "release"), "w").close()
if builder is not None:
    builder.join(120)
    if "error" in box or builder.is_alive():
        out["parent_ok"] = False
        out["parent_error"] = box.get("error", "the building thread did not finish")
    else:
        out["parent_Iq"] = box.get("Iq")
deadline = time.monotonic() + 90
for tag, pid in pids.items():
    status = None
    while time.monotonic() < deadline:
        try:
            done, status = os.waitpid(pid, os.WNOHANG)
        except ChildProcessError:
            status = -1
            break
        if done:
            break
        status = None
        time.sleep(0.01)
    if status is None:
        # no progress within the budget (in logical terms: the parent's own build has long finished)
        import signal
        try:
            os.kill(pid, signal.SIGKILL)
            os.waitpid(pid, 0)
        except OSError:
            pass
        out["workers"][tag] = {"ok": False, "error": "worker made no progress for 90 s after release (killed)", "status": "hung"}
        continue
    path = os.path.join(ctrl, tag + ".result")
    if tag in out["workers"]:
        continue
    if os.path.exists(path):
        out["workers"][tag] = json.load(open(path))
    else:
        out["workers"][tag] = {"ok": False, "error": "worker left no result", "status": status}
out["ok"] = bool(out.get("parent_ok")) and all(r.get("ok") for r in out["workers"].values())
print("RTMRESULT " + json.dumps(out))
sys.stdout.flush()
os._exit(0)
