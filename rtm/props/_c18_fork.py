"""
Participant of the C18 check: one interpreter that (optionally after building and using another model itself)
forks worker processes which all load the same not-yet-compiled model at the same time (parallel fitting on
Linux: multiprocessing's fork start method).

    _c18_fork.py <model> <nworkers> <prebuild: none|guinier|...>
"""
import json
import os
import sys
import time

repo = os.environ.get("VERIF_REPO", "/repo")
sys.path.insert(0, repo)
model_name, nworkers, prebuild = sys.argv[1], int(sys.argv[2]), sys.argv[3]
ctrl = os.environ["RTM_C18_CTRL"]

import numpy as np  # noqa: E402
from sasmodels import core, direct_model  # noqa: E402

q = np.array([0.01, 0.05, 0.2])
out = {"pid": os.getpid(), "workers": {}}
try:
    if prebuild != "none":
        m0 = core.load_model(prebuild)
        out["parent_Iq"] = [float(v) for v in direct_model.call_kernel(m0.make_kernel([q]), {})]
    out["parent_ok"] = True
except BaseException as exc:  # noqa
    out["parent_ok"] = False
    out["parent_error"] = repr(exc)[:500]

pids = {}
for w in range(nworkers):
    tag = "W%02d" % w
    pid = os.fork()
    if pid == 0:
        res = {"tag": tag, "pid": os.getpid()}
        try:
            os.environ["RTM_C18_TAG"] = os.environ.get("RTM_C18_TAG", "p") + tag
            open(os.path.join(ctrl, tag + ".ready"), "w").close()
            t0 = time.monotonic()
            while not os.path.exists(os.path.join(ctrl, "release")) and time.monotonic() - t0 < 60:
                time.sleep(0.0002)
            model = core.load_model(model_name)
            pars = {"radius": 40.0, "radius_pd": 0.1, "radius_pd_n": 5} if model_name == "sphere" else {}
            res["Iq"] = [float(v) for v in direct_model.call_kernel(model.make_kernel([q]), pars)]
            res["ok"] = True
        except BaseException as exc:  # noqa
            import traceback
            res["ok"] = False
            res["error"] = repr(exc)[:500]
            res["tb"] = traceback.format_exc()[-1200:]
        with open(os.path.join(ctrl, tag + ".result.tmp"), "w") as f:
            json.dump(res, f)
        os.replace(os.path.join(ctrl, tag + ".result.tmp"), os.path.join(ctrl, tag + ".result"))
        os._exit(0)
    pids[tag] = pid
t0 = time.monotonic()
while not all(os.path.exists(os.path.join(ctrl, t + ".ready")) for t in pids) and time.monotonic() - t0 < 60:
    time.sleep(0.001)
open(os.path.join(ctrl, "release"), "w").close()
for tag, pid in pids.items():
    try:
        _, status = os.waitpid(pid, 0)
    except ChildProcessError:
        status = -1
    path = os.path.join(ctrl, tag + ".result")
    if os.path.exists(path):
        out["workers"][tag] = json.load(open(path))
    else:
        out["workers"][tag] = {"ok": False, "error": "worker left no result", "status": status}
out["ok"] = bool(out.get("parent_ok")) and all(r.get("ok") for r in out["workers"].values())
print("RTMRESULT " + json.dumps(out))
sys.stdout.flush()
os._exit(0)
