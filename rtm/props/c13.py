"""
C13 - particle models are dimensionally consistent with their declared units.

call_kernel / call_Fq at (q, p) and at (q/lambda, p') with every parameter
multiplied by lambda to the power of its declared length unit, and with every
SLD multiplied by mu.
"""
from __future__ import annotations

import math
import os
import re

import numpy as np

from rtm import core, sas

PROP = "C13"
LEVEL = "exploration"
RULE = ("All models of category shape:* whose parameters carry only length-type, SLD, angle or dimensionless units x "
        "parameter sets from each model's random generator (inside limits), with and without dispersity, every "
        "effective-radius mode x lambda, mu in (0.3, 3) x 4 q values.  Distinct: hash of (model, call, mode, dispersed "
        "parameters).  Non-trivial: the parameter set is not the default one or dispersity is on.")
ASSUMPTIONS = ["one case in four enters dimensionless size ratios below their declared lower limit (e.g. axis_ratio < 1): the scaling law is a relation between two evaluations and must hold wherever the kernel returns finite values",
               "evaluated with background 0 (no cancellation against the background); atol 1e-9 of the largest value of the q vector (deep minima)",
               "unit strings '', None, 'none' count as dimensionless; 'degrees' as angle; type 'sld' as SLD",
               "rtol 1e-7 (conforming models agree to 1e-10..1e-15, offenders are off by 1e-2..0.9)"]
REQUIRED_MONITORS = ["length_scaling_I", "length_scaling_Fq", "sld_scaling"]
REQUIRED_BUCKETS = {"quick": ["pd:on", "pd:off", "mode>0", "dim:2d", "mesh>100:mode>0", "dist:lognormal", "dist:schulz", "dist:gaussian", "magnetic", "dist:rectangle", "dist:uniform",
                              "reparameterised:typed", "reparameterised:untyped", "magnetic:vector-sld-elements", "product:P-owns-volfraction", "product:S-owns-volfraction",
                              "python-shape-plugin-without-radius_effective", "product:magnetic-2d"]}
REQUIRED_BUCKETS["thorough"] = REQUIRED_BUCKETS["quick"]

UNIT_EXP = {"Ang": 1, "Ang^2": 2, "Ang^3": 3, "1/Ang": -1, "1/Ang^2": -2, "1/Ang^3": -3, "Ang^-1": -1, "Ang^-2": -2}


def unit_exponent(p):
    u = (p.units or "").strip()
    if p.type == "sld":
        return "sld"
    if u in ("", "none", "None", "degrees", "degree"):
        return 0
    if u in UNIT_EXP:
        return UNIT_EXP[u]
    return None


def models():
    out = []
    for m in sas.list_models():
        i = sas.info(m)
        if not (i.category or "").startswith("shape:"):
            continue
        if all(unit_exponent(p) is not None for p in i.parameters.kernel_parameters):
            out.append(m)
    return out


def _user_distribution():
    """Register the Laplace example that ships with the repository (example/weights/laplace.py), once per process."""
    from sasmodels import weights
    if "laplace" not in weights.DISTRIBUTIONS:
        repo = os.environ.get("VERIF_REPO", "/repo")
        weights.load_weights(os.path.join(repo, "example", "weights", "laplace.py"))
    return "laplace" in weights.DISTRIBUTIONS


def gen_cases(tier, seed):
    n = 4 if tier == "quick" else 60
    cases = []
    for m in models():
        for k in range(n):
            cases.append({"id": "%s/%03d" % (m, k), "model": m, "k": k, "seed": seed, "group": m})
    for j in range(len(PRODUCTS)):
        for k in range(2 if tier == "quick" else 20):
            cases.append({"id": "product/%d-%d" % (j, k), "kind": "product", "j": j, "k": k, "seed": seed, "model": "product",
                          "group": "pr%d" % j})
    for k in range(4 if tier == "quick" else 40):
        cases.append({"id": "pyshape/%02d" % k, "kind": "pyshape", "k": k, "seed": seed, "model": "pyshape", "group": "pys"})
    for j in range(len(REPARAMS)):
        for typed in (1, 0):
            for k in range(2 if tier == "quick" else 20):
                cases.append({"id": "reparam/%d-%s-%d" % (j, "typed" if typed else "untyped", k), "kind": "reparam", "j": j,
                              "typed": typed, "k": k, "seed": seed, "model": "reparam", "group": "rp%d%d" % (j, typed)})
    return cases


# shape models given other parameters (core.reparameterize): the new parameters carry their own units
REPARAMS = [
    ("sphere", [["size", "Ang^3", 4.2e5, [0, np.inf], "volume", "particle volume"]], "radius = cbrt(size/M_4PI_3)"),
    ("ellipsoid", [["vol", "Ang^3", 6.7e5, [0, np.inf], "volume", "particle volume"],
                   ["aspect", "", 2.0, [0.1, 10.0], "volume", "polar:equatorial"]],
     "re = cbrt(vol/(M_4PI_3*aspect))\nradius_equatorial = re\nradius_polar = aspect*re"),
    ("cylinder", [["area", "Ang^2", 1250.0, [0, np.inf], "volume", "cross section"]], "radius = sqrt(area/M_PI)"),
    ("core_shell_sphere", [["outer", "Ang", 80.0, [0, np.inf], "volume", "outer radius"],
                           ["frac", "", 0.7, [0.0, 1.0], "volume", "core fraction of the radius"]],
     "radius = frac*outer\nthickness = (1.0 - frac)*outer"),
    ("vesicle", [["inner_volume", "Ang^3", 1.1e5, [0, np.inf], "volume", "volume of the solvent core"]],
     "radius = cbrt(inner_volume/M_4PI_3)"),
]


PRODUCTS = ["vesicle@hardsphere", "multilayer_vesicle@squarewell", "sphere@hardsphere", "hollow_cylinder@stickyhardsphere",
            "core_shell_sphere@squarewell", "vesicle@stickyhardsphere"]      # (hayter_msa carries absolute lengths: salt, charge)


def run_product(case, rec):
    """Shape models inside P@S (form factors with and without their own volume fraction): the same laws, the structure
    factor's radius entered in Ang."""
    from sasmodels import core as sascore, direct_model
    expr = PRODUCTS[case["j"]]
    rng = core.rng_for(case["seed"], PROP, "product", case["j"], case["k"])
    i = sascore.load_model_info(expr)
    model = sascore.build_model(i, dtype="double", platform="dll")
    pars = {}
    for p in i.parameters.call_parameters:
        if p.type == "magnetic" or p.name in ("scale", "background") or p.type == "orientation" or p.is_control if hasattr(p, "is_control") else False:
            continue
        v = float(p.default)
        if p.type == "sld":
            v = float(rng.uniform(0.5, 6.0))
        elif p.name == "volfraction":
            v = float(rng.uniform(0.05, 0.3))
        elif np.isfinite(v) and v != 0 and p.units in ("Ang", "Ang^2", "Ang^3"):
            v = v*float(rng.uniform(0.7, 1.4))
        pars[p.name] = v
    mode = int(rng.integers(0, len(i.radius_effective_modes or []) + 1)) if "radius_effective_mode" in i.parameters else None
    if mode is not None:
        pars["radius_effective_mode"] = mode
    pars["scale"], pars["background"] = float(rng.uniform(0.5, 2)), 0.0
    lam, mu = float(rng.uniform(0.4, 2.5)), float(rng.uniform(0.3, 3.0))
    size = max([abs(pars[p.name]) for p in i.parameters.call_parameters if p.units == "Ang" and p.name in pars] + [1.0])
    q = [np.clip(np.exp(rng.uniform(math.log(0.2/size), math.log(6.0/size), 4)), 1e-7, 10.0)]
    if case["k"] % 2 == 1:
        # 2-D data with a magnetised SLD of the form factor (magnetisations are entered in the SLD unit)
        q = [q[0]*math.cos(0.7), q[0]*math.sin(0.7)]
        slds_ = [p.name for p in i.parameters.call_parameters if p.type == "sld"]
        if slds_:
            s0 = slds_[int(rng.integers(len(slds_)))]
            pars.update({s0 + "_M0": float(rng.uniform(0.5, 4)), s0 + "_mtheta": float(rng.uniform(-80, 80)),
                         s0 + "_mphi": float(rng.uniform(-170, 170)), "up_frac_i": float(rng.uniform(0, 1)),
                         "up_frac_f": float(rng.uniform(0, 1)), "up_theta": float(rng.uniform(0, 180)), "up_phi": float(rng.uniform(0, 180))})
            rec.bucket("product:magnetic-2d")
    I0 = np.asarray(direct_model.call_kernel(model.make_kernel(q), dict(pars)), float)
    p1 = scaled(i, pars, lam, 1.0)
    I1 = np.asarray(direct_model.call_kernel(model.make_kernel([a/lam for a in q]), dict(p1)), float)
    p2 = scaled(i, pars, 1.0, mu)
    I2 = np.asarray(direct_model.call_kernel(model.make_kernel(q), dict(p2)), float)
    sc = float(np.max(np.abs(I0)))
    ctx = {"model": expr, "pars": pars, "lambda": lam, "mu": mu, "q": q}
    ok = core.close(I1, lam**3*I0, 1e-7, 1e-9*lam**3*sc)
    rec.check("length_scaling_I", ok, None if ok else dict(ctx, I=I0, I_scaled=I1, expected=lam**3*I0,
                                                          max_rel_err=core.maxrel(I1, lam**3*I0, 1e-12*sc)))
    ok2 = core.close(I2, mu**2*I0, 1e-7, 1e-9*mu**2*sc)
    rec.check("sld_scaling", ok2, None if ok2 else dict(ctx, I=I0, I_scaled=I2))
    rec.bucket("product:" + ("P-owns-volfraction" if "vesicle" in expr else "S-owns-volfraction"), "pd:off", "dim:1d")
    rec.set_shape(("product", expr, case["k"]), True)


PYSHAPE = """r\"\"\"python shape plugin (verification harness)\"\"\"
import numpy as np
from numpy import inf
name = "%(name)s"
title = "python shape"
description = "python shape"
category = "shape:cylinder"
parameters = [["sld", "1e-6/Ang^2", 2.0, [-inf, inf], "sld", ""], ["sld_solvent", "1e-6/Ang^2", 6.0, [-inf, inf], "sld", ""],
              ["radius", "Ang", 35.0, [0, inf], "volume", ""], ["length", "Ang", 80.0, [0, inf], "volume", ""]]
def form_volume(radius, length):
    return np.pi*radius**2*length
def Iq(q, sld, sld_solvent, radius, length):
    rg2 = radius**2/2.0 + length**2/12.0
    return 1e-4*((sld - sld_solvent)*np.pi*radius**2*length)**2*np.exp(-q**2*rg2/3.0)
Iq.vectorized = True
"""


def run_pyshape(case, rec):
    """A pure-python shape plugin that defines its volume but no effective radius (the equivalent-sphere radius is then
    supplied by the library): the same laws."""
    from sasmodels import core as sascore, direct_model
    rng = core.rng_for(case["seed"], PROP, "pyshape", case["k"])
    d = os.path.join(os.environ.get("RTM_SCRATCH", "/tmp"), "c13plugins")
    os.makedirs(d, exist_ok=True)
    path = os.path.join(d, "rtm13_pyshape.py")
    if not os.path.exists(path):
        with open(path + ".tmp%d" % os.getpid(), "w") as f:
            f.write(PYSHAPE % dict(name="rtm13_pyshape"))
        os.replace(path + ".tmp%d" % os.getpid(), path)
    model = sascore.load_model(path)
    i = model.info
    pars = {"sld": float(rng.uniform(0.5, 4)), "sld_solvent": float(rng.uniform(5, 7)), "radius": float(rng.uniform(10, 60)),
            "length": float(rng.uniform(30, 200)), "scale": float(rng.uniform(0.5, 2)), "background": 0.0}
    if case["k"] % 2:
        pars.update(radius_pd=0.12, radius_pd_n=6, length_pd=0.1, length_pd_n=4)
    lam, mu = float(rng.uniform(0.4, 2.9)), float(rng.uniform(0.3, 3.0))
    q = [np.exp(rng.uniform(math.log(0.002), math.log(0.08), 4))]
    kf = lambda qq: model.make_kernel(qq)
    ctx = {"model": "python shape plugin with form_volume and without radius_effective", "pars": pars, "lambda": lam, "mu": mu, "q": q}
    I0, Fa = evaluate(i, kf, pars, q, 1, "1d")
    I1, Fb = evaluate(i, kf, scaled(i, pars, lam, 1.0), [a/lam for a in q], 1, "1d")
    I2, _ = evaluate(i, kf, scaled(i, pars, 1.0, mu), q, 1, "1d")
    sc = float(np.max(np.abs(I0)))
    ok = core.close(I1, lam**3*I0, 1e-7, 1e-9*lam**3*sc)
    rec.check("length_scaling_I", ok, None if ok else dict(ctx, I=I0, I_scaled=I1))
    rec.check("sld_scaling", core.close(I2, mu**2*I0, 1e-7, 1e-9*mu**2*sc), dict(ctx, I=I0, I_scaled=I2))
    okF = abs(Fb[3] - lam**3*Fa[3]) <= 1e-7*abs(lam**3*Fa[3]) and abs(Fb[2] - lam*Fa[2]) <= 1e-7*abs(lam*Fa[2]) and Fa[2] > 0
    rec.check("length_scaling_Fq", bool(okF), None if okF else dict(ctx, R=[Fa[2], Fb[2]], V_shell=[Fa[3], Fb[3]]))
    rec.bucket("python-shape-plugin-without-radius_effective", "pd:on" if case["k"] % 2 else "pd:off", "dim:1d")
    rec.set_shape(("pyshape", case["k"]), True)


def run_reparam(case, rec):
    from sasmodels import core as sascore, direct_model
    base, new, text = REPARAMS[case["j"]]
    typed = bool(case["typed"])
    new = [n[:4] + [n[4] if typed else ""] + n[5:] for n in new]
    rng = core.rng_for(case["seed"], PROP, "reparam", case["j"], case["typed"], case["k"])
    i = sascore.reparameterize(sas.info(base), new, text, name="rtm13_%d_%d" % (case["j"], case["typed"]))
    model = sas.build(i)
    pars = {}
    for p in i.parameters.call_parameters:
        if p.type == "magnetic" or p.name in ("scale", "background") or p.type == "orientation":
            continue
        v = float(p.default)
        if p.type == "sld":
            v = float(rng.uniform(0.5, 6.0))
        elif np.isfinite(v) and v != 0:
            v = v*float(rng.uniform(0.7, 1.4))
            v = min(max(v, p.limits[0]), p.limits[1])
        pars[p.name] = v
    pars["scale"], pars["background"] = float(rng.uniform(0.5, 2)), 0.0
    pd_on = typed and case["k"] % 2 == 1
    if pd_on:
        for n in new:
            pn = i.parameters[n[0]]
            if pn.polydisperse and n[1] != "":
                sas.add_pd(pars, pn, ["gaussian", "schulz", "rectangle"][int(rng.integers(3))], int(rng.integers(4, 13)),
                           float(rng.uniform(0.05, 0.15)), 1.7)
    rec.bucket("reparameterised:" + ("typed" if typed else "untyped"), "pd:on" if pd_on else "pd:off", "dim:1d")
    lam, mu = float(rng.uniform(0.4, 2.5)), float(rng.uniform(0.3, 3.0))
    size = max([abs(pars[p.name])**(1.0/UNIT_EXP[p.units]) for p in i.parameters.kernel_parameters
                if p.units in ("Ang", "Ang^2", "Ang^3") and p.name in pars] + [1.0])
    qs = [np.clip(np.exp(rng.uniform(math.log(0.2/size), math.log(6.0/size), 4)), 1e-7, 10.0)]
    kf = lambda qq: model.make_kernel(qq)
    modes = i.radius_effective_modes or []
    ctx = {"base": base, "new_parameters": [[n[0], n[1], n[4]] for n in new], "translation": text, "pars": pars,
           "lambda": lam, "mu": mu, "q": qs}
    p1 = scaled(i, pars, lam, 1.0)
    for m_ in range(0, len(modes) + 1):
        I0, Fa = evaluate(i, kf, pars, qs, m_, "1d")
        I1, Fb = evaluate(i, kf, p1, [a/lam for a in qs], m_, "1d")
        sc = float(np.max(np.abs(I0)))
        if m_ == 0:
            ok = core.close(I1, lam**3*I0, 1e-7, 1e-9*lam**3*sc)
            rec.check("length_scaling_I", ok, None if ok else dict(ctx, I=I0, I_scaled=I1, expected=lam**3*I0,
                                                                  max_rel_err=core.maxrel(I1, lam**3*I0, 1e-12*sc)))
            I2, _ = evaluate(i, kf, scaled(i, pars, 1.0, mu), qs, 0, "1d")
            ok2 = core.close(I2, mu**2*I0, 1e-7, 1e-9*mu**2*sc)
            rec.check("sld_scaling", ok2, None if ok2 else dict(ctx, I=I0, I_scaled=I2))
        okF = abs(Fb[3] - lam**3*Fa[3]) <= 1e-7*abs(lam**3*Fa[3]) and abs(Fb[4] - Fa[4]) <= 1e-7*abs(Fa[4])
        if m_:
            okF = okF and abs(Fb[2] - lam*Fa[2]) <= 1e-7*abs(lam*Fa[2]) and Fa[2] > 0
        rec.check("length_scaling_Fq", bool(okF),
                  None if okF else dict(ctx, mode=m_, mode_name=modes[m_-1] if m_ else None, R=[Fa[2], Fb[2]],
                                        V_shell=[Fa[3], Fb[3]], ratio=[Fa[4], Fb[4]]))
    rec.set_shape(("reparam", case["j"], typed, pd_on, case["k"]), nontrivial=True)


def scaled(i, pars, lam, mu, override=None):
    out = dict(pars)
    for p in i.parameters.call_parameters:
        if p.name not in out or p.name in ("scale", "background"):
            continue
        e = unit_exponent(p) if p.type != "magnetic" else 0
        if p.type == "magnetic" and p.name.endswith("_M0"):
            e = "sld"          # magnetic scattering length densities are declared in the SLD unit
        if override and p.name in override:
            e = override[p.name]
        if e == "sld":
            out[p.name] = out[p.name]*mu
        elif e:
            out[p.name] = out[p.name]*lam**e
    return out


def evaluate(i, kernel_for, pars, q, mode, dim):
    from sasmodels import direct_model
    k = kernel_for(q)
    I = np.asarray(direct_model.call_kernel(k, dict(pars)), float)
    res = None
    if dim == "1d":
        F1, F2, R, Vs, ratio = direct_model.call_Fq(k, dict(pars, radius_effective_mode=mode))
        res = (None if F1 is None else np.asarray(F1, float), np.asarray(F2, float), float(R), float(Vs), float(ratio))
    k.release()
    return I, res


def run_case(case, rec):
    if case.get("kind") == "reparam":
        return run_reparam(case, rec)
    if case.get("kind") == "product":
        return run_product(case, rec)
    if case.get("kind") == "pyshape":
        return run_pyshape(case, rec)
    name = case["model"]
    i = sas.info(name)
    k = case["k"]
    rng = core.rng_for(case["seed"], PROP, name, k)
    pars = sas.base_pars(i, case["seed"]*613 + k, style="default" if k == 0 else "wide" if k % 4 == 3 else "random",
                         below_limit=(k % 4 == 3))
    # (I - background) is formed with background 0, so that no cancellation against a large background
    # limits the comparison (the background itself is dimension-free and passes through unchanged)
    pars["background"] = 0.0
    pd_on = (k % 2 == 1)
    dim = "2d" if (k % 4 == 2 and not sas.is_python(i)) else "1d"
    # every fourth case: a mesh of more than 100 points (the compiled kernel is re-entered with its running
    # totals, among them the dimensionful R_eff and volume sums) with an effective-radius mode requested
    big = pd_on and k % 4 == 1 and dim == "1d" and not sas.is_python(i) and sas.eval_cost(i, "1d") < 2e-4
    if pd_on:
        cand = sas.usable_pd(i, pars, dim)
        rng.shuffle(cand)
        if big:
            cand = [p for p in cand if p.type != "orientation"]
        for p in cand[:2]:
            if p.type == "orientation":
                sas.add_pd(pars, p, "gaussian", 3, float(rng.uniform(3, 15)), 2.0)
            else:
                lo, hi = p.limits
                v = pars[p.name]
                room = min(abs(v - lo), abs(hi - v))/abs(v)
                # keep the window inside the limits for the scaled copy too
                w = min(float(rng.uniform(0.05, 0.2)), 0.3*room/2.0)
                if w > 0:
                    dist = ["gaussian", "schulz", "lognormal", "rectangle", "uniform"][int(rng.integers(5))]
                    if (k + len(name)) % 5 == 2 and _user_distribution():
                        # a user-defined distribution written as the polydispersity guide shows (the shipped Laplace example)
                        dist = "laplace"
                    sas.add_pd(pars, p, dist, (11 if big else 4), w, 1.7 if dist == "rectangle" else 2.0)
                    rec.bucket("dist:" + dist)
    if (k + len(name)) % 4 == 1 and name.startswith("core_"):
        # (core-shell shapes: the particle is still there without the layer)  a layer of thickness exactly zero that still carries a (relative) distribution: zero stays zero under the scaling
        thick = [p_ for p_ in i.parameters.call_parameters if p_.type == "volume" and "thick" in p_.name
                 and p_.limits[0] <= 0 and p_.name in sas.active_names(i, pars) and p_.polydisperse]
        if thick:
            tp_ = thick[(k//4) % len(thick)]
            pars[tp_.name] = 0.0
            sas.add_pd(pars, tp_, ["gaussian", "rectangle", "uniform"][(k//4) % 3], 5, float(rng.uniform(0.2, 0.5)), 1.7)
            rec.bucket("size-exactly-zero-with-distribution")
    if big and len([kk for kk in pars if kk.endswith("_pd_n") and pars[kk] == 11]) >= 2:
        rec.bucket("mesh>100")
    else:
        big = False
    if dim == "2d" and i.parameters.nmagnetic > 0 and not sas.is_python(i):
        # a magnetic SLD, and direction angles left on an SLD without magnetisation (angles carry no unit)
        slds = [p_.name for p_ in i.parameters.call_parameters if p_.type == "sld" and p_.name in sas.active_names(i, pars)]
        if slds:
            pars[slds[0] + "_M0"] = float(rng.uniform(0.5, 4.0))
            pars[slds[0] + "_mtheta"], pars[slds[0] + "_mphi"] = float(rng.uniform(-80, 80)), float(rng.uniform(-170, 170))
            # models with a vector of SLDs: magnetisation also on another element, and on the last declared element
            # whether or not the shell count makes it part of the particle
            allsld = [p_.name for p_ in i.parameters.call_parameters if p_.type == "sld"]
            if len(allsld) > len(slds) or any(n_[-1].isdigit() for n_ in allsld):
                for n_ in {allsld[-1], slds[-1], slds[int(rng.integers(len(slds)))]}:
                    pars[n_ + "_M0"] = float(rng.uniform(0.5, 4.0))
                    pars[n_ + "_mtheta"], pars[n_ + "_mphi"] = float(rng.uniform(-80, 80)), float(rng.uniform(-170, 170))
                rec.bucket("magnetic:vector-sld-elements")
            for s_ in slds[1:]:
                pars[s_ + "_mtheta"], pars[s_ + "_mphi"] = float(rng.uniform(-80, 80)), float(rng.uniform(-170, 170))
            pars.update(up_frac_i=float(rng.uniform(0, 1)), up_frac_f=float(rng.uniform(0, 1)),
                        up_theta=float(rng.uniform(0, 180)), up_phi=float(rng.uniform(0, 180)))
            rec.bucket("magnetic")
    rec.bucket("pd:on" if pd_on else "pd:off", "dim:" + dim)
    lam, mu = float(rng.uniform(0.3, 3.0)), float(rng.uniform(0.3, 3.0))
    size = sas.size_scale(i, pars)
    if dim == "1d":
        q = np.exp(rng.uniform(math.log(0.2/size), math.log(8.0/size), 4))
        qs = [np.clip(q, 1e-7, 10.0)]
    else:
        qx, qy = sas.q_points_2d(i, pars, 4, rng)
        qs = [qx, qy]
    model = sas.build(name)
    kf = lambda qq: model.make_kernel(qq)
    modes = i.radius_effective_modes or []
    mode = int(rng.integers(0, len(modes) + 1))
    if big and modes:
        mode = int(rng.integers(1, len(modes) + 1))
        rec.bucket("mesh>100:mode>0")
    if mode:
        rec.bucket("mode>0")
    bg = pars.get("background", 0.0)
    I0, F0 = evaluate(i, kf, pars, qs, mode, dim)
    if not np.all(np.isfinite(I0)):
        rec.skip("model is not defined at this parameter set")
        rec.set_shape((name, "undefined"), False)
        return
    # inside the limits after scaling?
    p1 = scaled(i, pars, lam, 1.0)
    inlim = {p.name for p in i.parameters.call_parameters if p.name in pars and p.limits[0] <= pars[p.name] <= p.limits[1]}
    for p in i.parameters.call_parameters:
        if p.name in p1 and p.name in inlim and not (p.limits[0] <= p1[p.name] <= p.limits[1]):
            lam = 1.0 + 0.2*(lam - 1.0)/abs(lam - 1.0 + 1e-9) if False else min(max(lam, 0.8), 1.25)
            p1 = scaled(i, pars, lam, 1.0)
            break
    if any(not (p.limits[0] <= p1.get(p.name, p.limits[0]) <= p.limits[1]) for p in i.parameters.call_parameters
           if p.name in p1 and p.name in inlim):
        rec.skip("scaled parameters leave the declared limits")
        rec.set_shape((name, "skipped"), False)
        return
    I1, F1 = evaluate(i, kf, p1, [a/lam for a in qs], mode, dim)
    ctx = {"model": name, "pars": pars, "lambda": lam, "mu": mu, "q": qs, "mode": mode, "dim": dim}
    sc = float(np.max(np.abs(I0 - bg)))
    # measured conditioning: the same law at lambda = 1 + 1e-13 changes I by 3e-13 in exact arithmetic;
    # whatever more is observed is the kernel's own rounding amplification (cancellation-prone models)
    eps = 1e-13
    Ie, _ = evaluate(i, kf, scaled(i, pars, 1 + eps, 1.0), [a/(1 + eps) for a in qs], 0, dim)
    with np.errstate(all="ignore"):
        noise = float(np.nanmax(np.abs(Ie - I0)/(np.abs(I0) + 1e-9*sc)))
    rtol = max(1e-7, 1e3*noise)
    rec.count("rtol_widened_by_conditioning", int(rtol > 1e-7))
    ctx["rtol"] = rtol
    ok = core.close(I1 - bg, lam**3*(I0 - bg), rtol, 1e-9*lam**3*sc)
    key = None
    if not ok:
        key = attribute(i, kf, pars, qs, mode, dim, lam, I0, bg, name)
    rec.check("length_scaling_I", ok, None if ok else dict(ctx, I=I0, I_scaled=I1, expected=lam**3*(I0 - bg) + bg,
                                                          max_rel_err=core.maxrel(I1 - bg, lam**3*(I0 - bg), 1e-12*sc)),
              key=key)
    if F0 is not None:
        # every effective-radius mode, not only the drawn one: modes are cheap and rarely exercised
        for m_ in sorted(set([mode] + list(range(0, len(modes) + 1)))):
            if m_ != mode:
                _, Fa = evaluate(i, kf, pars, qs, m_, dim)
                _, Fb = evaluate(i, kf, p1, [a/lam for a in qs], m_, dim)
            else:
                Fa, Fb = F0, F1
            okF = True
            reports_volume = not (Fa[3] == 1.0 and Fb[3] == 1.0)      # per-area / volume-less models report 1
            if i.parameters.form_volume_parameters and sas.raw(i)._defs.get("form_volume") and reports_volume:
                okF = abs(Fb[3] - lam**3*Fa[3]) <= 1e-7*abs(lam**3*Fa[3]) and abs(Fb[4] - Fa[4]) <= 1e-7*abs(Fa[4])
            if m_:
                okF = okF and abs(Fb[2] - lam*Fa[2]) <= 1e-7*abs(lam*Fa[2])
            rec.check("length_scaling_Fq", bool(okF),
                      None if okF else dict(ctx, mode=m_, mode_name=modes[m_-1] if m_ else None, R=[Fa[2], Fb[2]],
                                            V_shell=[Fa[3], Fb[3]], ratio=[Fa[4], Fb[4]]), key=key)
    p2 = scaled(i, pars, 1.0, mu)
    I2, _ = evaluate(i, kf, p2, qs, 0, dim)
    ok2 = core.close(I2 - bg, mu**2*(I0 - bg), rtol, 1e-9*mu**2*sc)
    rec.check("sld_scaling", ok2, None if ok2 else dict(ctx, I=I0, I_scaled=I2,
                                                        max_rel_err=core.maxrel(I2 - bg, mu**2*(I0 - bg), 1e-12*sc)))
    rec.set_shape((name, dim, mode, sorted(kk for kk in pars if kk.endswith("_pd_n"))), nontrivial=(k != 0 or pd_on))
    if k == 0:
        rec.observe(model=name, lam=lam, mu=mu, I=I0, I_length_scaled=I1, I_sld_scaled=I2)


def attribute_name(name, what):
    return None


def attribute(i, kf, pars, qs, mode, dim, lam, I0, bg, name):
    """Smallest set of parameters (none, one, two) whose unit exponents, changed to 0 or by +-1, make
    (I'-bg)/(I-bg) a pure power lambda^n; the key names those parameters and, if n != 3, the power."""
    import itertools
    sc = float(np.max(np.abs(I0 - bg)))
    cands = [p for p in i.parameters.call_parameters
             if p.name not in ("scale", "background") and p.name in pars
             and p.type not in ("sld", "magnetic", "orientation") and unit_exponent(p) != "sld"
             and p.name in sas.active_names(i, pars)]

    tight = 1e-6

    def power(override):
        p1 = scaled(i, pars, lam, 1.0, override=override)
        try:
            I1, _ = evaluate(i, kf, p1, [a/lam for a in qs], 0, dim)
        except Exception:
            return None
        with np.errstate(all="ignore"):
            r = (I1 - bg)/(I0 - bg)
        r = r[np.abs(I0 - bg) > 1e-9*sc]
        if len(r) < 2 or not np.all(np.isfinite(r)) or np.any(r <= 0):
            return None
        if float(np.ptp(r)) > tight*float(np.mean(r)):
            return None
        return math.log(float(np.mean(r)))/math.log(lam)

    def alts(p):
        e0 = unit_exponent(p)
        return [e for e in sorted({0, e0 - 1, e0 + 1} - {e0})]

    def label(over, n):
        parts = ["%s:%s->%s" % (k.rstrip("0123456789"), unit_exponent(i.parameters[k]), v) for k, v in sorted(over.items())]
        if abs(n - 3.0) > 1e-4:
            parts.append("overall-lambda^%.2f" % n)
        return "C13/units/%s/%s" % (name, "+".join(parts) if parts else "none")

    n = power(None)
    if n is not None and abs(n - 3.0) > 1e-4:
        return label({}, n)
    # first look for a single parameter that restores the law essentially exactly
    exact = []
    for p in cands:
        for e in alts(p):
            p1 = scaled(i, pars, lam, 1.0, override={p.name: e})
            try:
                I1, _ = evaluate(i, kf, p1, [a/lam for a in qs], 0, dim)
            except Exception:
                continue
            if core.close(I1 - bg, lam**3*(I0 - bg), 1e-10, 1e-12*lam**3*sc):
                exact.append(({p.name: e}, 3.0))
                break
    if len(exact) == 1:
        return label(*exact[0])
    hits = []
    for p in cands:
        for e in alts(p):
            n = power({p.name: e})
            if n is not None:
                hits.append(({p.name: e}, n))
                break
    if len(hits) == 1:
        return label(*hits[0])
    if hits:
        return None
    for pa, pb in itertools.combinations(cands, 2):
        for xa in alts(pa):
            for xb in alts(pb):
                n = power({pa.name: xa, pb.name: xb})
                if n is not None:
                    return label({pa.name: xa, pb.name: xb}, n)
    return None


def classify(case, v):
    k = v.get("key")
    if k:
        return k
    d = v.get("detail") or {}
    if d.get("model") in ("flexible_cylinder", "flexible_cylinder_elliptical") and v["monitor"] == "length_scaling_I" \
            and (d.get("max_rel_err") or 1) < 1e-2:
        # lib/wrc_cyl.c: q0short = fmax(1.9/Rg_short, 3.0) compares 1/Ang with a pure number, so the branch
        # taken for short chains depends on the length unit; only small deviations carry this signature
        return "C13/wrc_cyl-q0short-compares-inverse-length-with-number"
    return None


LEVEL_TEXT = ("Metamorphic scaling laws (lambda^3, lambda, mu^2) derived from the declared unit strings are checked on the "
              "real kernels of every qualifying shape model over generated parameter sets, dispersity and effective-radius "
              "modes; a violating case is attributed to the single parameter whose unit exponent restores the law.")
LEVEL_NOTE = "rtol 1e-7; models with other units are outside the quantifier; attribution is a one-parameter search."
TECHNIQUE = "metamorphic monitor (dimensional scaling laws from declared units) on the real kernels"
