"""
C08 - sum and product mixtures equal the stated combination of their parts.

Generated model expressions (sums of products of leaves / P@S groups) are
evaluated through the real mixture machinery and compared with the stated
combination of the parts, each part evaluated alone on its own separately
built model with scale 1, background 0.  Parameters are mapped between the
combined table and the parts *by position* in the public parameter table.
"""
from __future__ import annotations

import math

import numpy as np

from rtm import core, sas

PROP = "C08"
LEVEL = "exploration"
RULE = ("Generated expressions: 1..3 '+' terms, each a leaf, a '*' product of 2..3 leaves or a P@S group (2..4 leaves in "
        "total) over the builtin models (C and Python), evaluated in 1-D and 2-D with random in-limit parameters, "
        "dispersity in several components at once, magnetic SLDs (2-D), vector-parameter components, and components "
        "that are identically zero (contrast 0, line with zero slope/intercept).  Distinct: hash of (expression, dim, "
        "dispersed parameters, zero components, magnetic).  Non-trivial: at least two components contribute.")
ASSUMPTIONS = [
    "each leaf alone (and each P@S group alone) is the reference for I_k: their own correctness is C01/C07's business",
    "combined parameters are located by position in the public parameter table: [X_scale,] part parameters ... per part",
]
REQUIRED_MONITORS = ["equals_stated_combination", "order_independent", "kernel_reuse_consistent"]
REQUIRED_BUCKETS = {"quick": ["op:+", "op:*", "op:@", "nested:product-in-sum", "dim:1d", "dim:2d", "zero:some-component",
                              "zero:first-factor", "dispersity:>=2-components", "magnetic", "vector-component",
                              "python-component", "oriented-component", "lane:asan", "magnetic:all-sld-components", "magnetic:with-nonmagnetic-bystander",
                              "magnetic:with-python-bystander", "component-with-empty-mesh",
                              "no-sld-parameter-in-mixture", "magnetic:no-positive-component",
                              "precision:single", "magnetic:bystander-with-direction-angles",
                              "dispersity:more-distributions-than-one-kernel-loops", "component-scale:zero",
                              "component-scale:negative", "component-scale:tiny", "bare-structure-factor-component",
                              "zero-factor-before-a-factor-singular-at-q=0", "product-loaded-again-after-a-sum-containing-it"]}
REQUIRED_BUCKETS["thorough"] = REQUIRED_BUCKETS["quick"]

SFACTORS = ["hardsphere", "hayter_msa", "squarewell", "stickyhardsphere"]
ZERO_LEAVES = ["line", "sphere"]
CHEAP = None


def worker_init(tier, seed):
    sas.install_poison()


def leaf_pool():
    global CHEAP
    if CHEAP is None:
        out = []
        for m in sas.list_models():
            i = sas.info(m)
            if i.structure_factor or m in ("rpa",):
                continue
            out.append(m)
        CHEAP = out
    return CHEAP


# ---------------------------------------------------------------------------
# expression generation
# ---------------------------------------------------------------------------

def gen_expr(rng, force=None):
    """Returns a list of terms; a term is a list of factors; a factor is 'leaf' or 'P@S'."""
    pool = leaf_pool()
    if (force or {}).get("mag"):
        pool = [m for m in pool if not sas.is_python(m) and sas.info(m).parameters.nmagnetic > 0
                and m not in ("superball", "pringle")]
    if (force or {}).get("single"):
        # only components declared safe for single precision (and cheap, well-conditioned ones)
        pool = [m for m in pool if not sas.is_python(m) and sas.info(m).single
                and m not in ("superball", "pringle", "spherical_sld", "onion")]
    spherical = [m for m in pool if sas.info(m).radius_effective_modes and not sas.is_python(m)]
    force = force or {}

    def leaf():
        r = rng.random()
        if force.get("vector") and not force.get("_v"):
            force["_v"] = True
            return ["core_multi_shell", "onion", "spherical_sld"][int(rng.integers(3))]
        if r < 0.12:
            return spherical[int(rng.integers(len(spherical)))] + "@" + SFACTORS[int(rng.integers(4))]
        return pool[int(rng.integers(len(pool)))]

    shape = force.get("shape") or [["L"], ["L", "L"], ["LL"], ["LL", "L"], ["L", "LL"], ["LLL"], ["L", "L", "L"],
                                   ["LL", "LL"]][int(rng.integers(8))]
    terms = []
    for t in shape:
        terms.append([leaf() for _ in t])
    if force.get("at") and not any("@" in f for t in terms for f in t):
        terms[0][0] = spherical[int(rng.integers(len(spherical)))] + "@" + SFACTORS[int(rng.integers(4))]
    if force.get("zero_first") and len(terms[0]) >= 2:
        terms[0][0] = ZERO_LEAVES[int(rng.integers(2))]
        if force.get("singular"):
            # the factor after the vanishing one is not finite at q = 0 (power laws): 0 x inf is not a number
            terms[0][1] = ["power_law", "porod", "guinier_porod"][int(rng.integers(3))]
    if force.get("oriented"):
        om = sas.oriented_models()
        terms[-1][-1] = om[int(rng.integers(len(om)))]
    if force.get("nosld"):
        # no component with an SLD parameter (then the mixture has no magnetic block at all), at least one compiled
        # component with a dispersible parameter
        nos = [m for m in leaf_pool() if not any(p.type == "sld" for p in sas.info(m).parameters.kernel_parameters)]
        disp = [m for m in nos if not sas.is_python(m) and any(p.polydisperse for p in sas.info(m).parameters.kernel_parameters)]
        terms = [[nos[int(rng.integers(len(nos)))] for _ in t] for t in terms]
        terms[0][0] = disp[int(rng.integers(len(disp)))]
        return terms
    if force.get("bareS"):
        # a bare structure factor as one component of the sum / one factor of a product
        terms[-1][-1] = SFACTORS[int(rng.integers(4))]
        return terms
    if force.get("manypd"):
        # every component with two size distributions: more distributions in the whole expression than one kernel
        # has loops for, each component inside its own budget
        many = ["cylinder", "ellipsoid", "core_shell_sphere", "hollow_cylinder", "core_shell_cylinder"]
        return [[many[int(rng.integers(len(many)))] for _ in t] for t in terms]
    if force.get("python"):
        py = [m for m in leaf_pool() if sas.is_python(m)]
        terms[-1][0] = py[int(rng.integers(len(py)))]
    return terms


def expr_string(terms):
    return "+".join("*".join(t) for t in terms)


def gen_cases(tier, seed):
    n = 120 if tier == "quick" else 2000
    cases = []
    forces = [{"shape": ["LL"], "zero_first": True}, {"shape": ["LL", "L"], "zero_first": True}, {"vector": True},
              {"at": True}, {"oriented": True}, {"python": True}, {"shape": ["LLL"], "zero_first": True}, {},
              {"mag": "all"}, {"mag": "partial", "shape": ["L", "L"]}, {"mag": "all", "shape": ["LL", "L"]},
              {"mag": "all", "shape": ["L", "L"], "python": True}, {"mag": "all", "shape": ["LL"], "python": True},
              {"single": True, "python": True, "shape": ["L", "L"]}, {"single": True, "python": True, "shape": ["LL"]},
              {"single": True, "shape": ["L", "L"]}, {"mag": "all", "shape": ["L", "L", "L"]},
              {"nosld": True, "shape": ["L", "L"]}, {"nosld": True, "shape": ["LL"]}, {"nosld": True, "shape": ["L", "LL"]},
              {"empty": True, "shape": ["L", "L"]}, {"empty": True, "shape": ["L", "L", "L"]}, {"empty": True, "shape": ["LL", "L"]},
              {"shape": ["LL"], "zero_first": True, "singular": True}, {"shape": ["LL", "L"], "zero_first": True, "singular": True},
              {"reloaded": True, "shape": ["LL"]}, {"reloaded": True, "shape": ["LLL"]},
              {"bareS": True, "shape": ["L", "L"]}, {"bareS": True, "shape": ["LL", "L"]}, {"bareS": True, "shape": ["L", "LL"]},
              {"manypd": True, "bigcount": True, "shape": ["L", "L", "L"]},
              {"manypd": True, "shape": ["L", "L", "L"]}, {"manypd": True, "shape": ["LL", "L"]}, {"manypd": True, "shape": ["LLL"]}]
    for k in range(n):
        cases.append({"id": "expr/%04d" % k, "k": k, "seed": seed, "force": forces[k % len(forces)],
                      "dim": "2d" if (k % 3 == 1 or forces[k % len(forces)].get("mag")) else "1d", "lane": "plain", "group": "g%d" % (k % 64), "cost": 1})
    for k in range(8 if tier == "quick" else 60):
        cases.append({"id": "asan/%04d" % k, "k": 10000 + k, "seed": seed, "force": forces[k % len(forces)],
                      "dim": "2d" if k % 2 else "1d", "lane": "asan", "group": "a%d" % (k % 8), "cost": 4})
    return cases


# ---------------------------------------------------------------------------
# parameters
# ---------------------------------------------------------------------------

def leaf_parameters(factor, rng, seedk, dim, want_zero=False, want_pd=True, want_mag=False, want_empty=False,
                    force_npd=None):
    """Parameter dict (leaf's own names) for one factor evaluated alone."""
    i = sas.info(factor) if "@" not in factor else load_info(factor)
    pars = sas.base_pars(i, seedk)
    pars.pop("scale", None)
    pars.pop("background", None)
    tags = set()
    if want_zero:
        if i.id == "line":
            pars["intercept"], pars["slope"] = 0.0, 0.0
            tags.add("zero")
        elif i.id == "sphere":
            pars["sld_solvent"] = pars["sld"]
            tags.add("zero")
    if want_pd:
        cand = sas.usable_pd(i, pars, dim)
        cand = [p for p in cand if p.name != "radius_effective"]
        rng.shuffle(cand)
        npd = min(len(cand), int(rng.integers(0, 3)), i.parameters.max_pd)
        if force_npd:
            cand = [p for p in cand if p.type == "volume"] + [p for p in cand if p.type != "volume"]
            npd = min(len(cand), abs(force_npd), i.parameters.max_pd)
        for p in cand[:npd]:
            if p.type == "orientation":
                sas.add_pd(pars, p, "gaussian", int(rng.integers(2, 5)), float(rng.uniform(3, 20)), 2.0)
            else:
                lo, hi = p.limits
                v = pars[p.name]
                room = min(abs(v - lo), abs(hi - v))/abs(v)
                w = min(float(rng.uniform(0.05, 0.2)), 0.9*room/2.0)
                if w > 0:
                    sas.add_pd(pars, p, ["gaussian", "schulz", "lognormal", "uniform"][int(rng.integers(4))],
                               40 if (force_npd or 0) < 0 else int(rng.integers(2, 6)), w, 2.0)
        if npd:
            tags.add("pd")
    if want_empty and "@" not in factor:
        # a distribution that lies entirely outside the parameter's limits: this component's mesh is empty
        cand = [p for p in i.parameters.kernel_parameters if p.type == "volume" and p.length == 1 and p.limits[0] == 0
                and p.polydisperse and not p.is_control and p.name in sas.active_names(i, pars)]
        if cand:
            p = cand[int(rng.integers(len(cand)))]
            pars[p.name] = -abs(pars[p.name]) - 1.0
            pars[p.name + "_pd"], pars[p.name + "_pd_n"] = 0.1, int(rng.integers(1, 6))
            pars[p.name + "_pd_nsigma"], pars[p.name + "_pd_type"] = 2.0, "gaussian"
            tags.add("empty")
    if want_mag and dim == "2d" and not sas.is_python(i) and i.parameters.nmagnetic > 0:
        slds = [p.name for p in i.parameters.call_parameters if p.type == "sld"
                and p.name in sas.active_names(i, pars)]
        if slds:
            s = slds[int(rng.integers(len(slds)))]
            pars[s + "_M0"] = float(rng.uniform(0.5, 4.0))
            pars[s + "_mtheta"] = float(rng.uniform(-80, 80))
            pars[s + "_mphi"] = float(rng.uniform(-170, 170))
            if seedk % 3 == 0:
                # a magnetisation vector none of whose Cartesian components is positive (negative amplitude, first
                # octant direction or the default angles)
                pars[s + "_M0"] = -pars[s + "_M0"]
                if seedk % 2:
                    pars[s + "_mtheta"], pars[s + "_mphi"] = float(rng.uniform(5, 85)), float(rng.uniform(5, 85))
                else:
                    pars[s + "_mtheta"], pars[s + "_mphi"] = 0.0, 0.0
                tags.add("mag-nonpositive")
            tags.add("mag")
    if not want_mag and dim == "2d" and "@" not in factor and not sas.is_python(i) and i.parameters.nmagnetic > 0 \
            and (seedk % 7919) % 2 == 0:          # (position in the expression, not the run's seed, decides)
        # direction angles on an SLD without magnetisation (zero amplitude): they carry no meaning
        for s_ in [p.name for p in i.parameters.call_parameters if p.type == "sld" and p.name in sas.active_names(i, pars)]:
            pars[s_ + "_mtheta"] = float(rng.uniform(10, 80))
            pars[s_ + "_mphi"] = float(rng.uniform(10, 170))
        tags.add("angles-without-amplitude")
    return i, pars, tags


_info_cache = {}


def load_info(expr):
    from sasmodels import core as sascore
    if expr not in _info_cache:
        _info_cache[expr] = sascore.load_model_info(expr)
    return _info_cache[expr]


def combined_names(cinfo, terms):
    """Walk the combined table by position: returns for each term its scale name (or None) and for each
    factor the list of (combined kernel parameter, part kernel parameter)."""
    kp = list(cinfo.parameters.kernel_parameters)
    pos = 0
    out = []
    is_sum = len(terms) > 1
    for t in terms:
        scale_name = None
        if is_sum:
            scale_name = kp[pos].name
            pos += 1
        facs = []
        for f in t:
            fi = load_info(f)
            n = len(fi.parameters.kernel_parameters)
            facs.append(list(zip(kp[pos:pos + n], fi.parameters.kernel_parameters)))
            pos += n
        out.append((scale_name, facs))
    assert pos == len(kp), "combined table does not have the documented layout"
    return out


SUFFIXES = ["", "_pd", "_pd_n", "_pd_nsigma", "_pd_type", "_M0", "_mtheta", "_mphi"]


def to_combined(pairs, leaf_pars):
    out = {}
    for cp, lp in pairs:
        idxs = [""] if lp.length == 1 else [str(k) for k in range(1, lp.length + 1)]
        for ix in idxs:
            for suf in SUFFIXES:
                k = lp.id + ix + suf
                if k in leaf_pars:
                    out[cp.id + ix + suf] = leaf_pars[k]
    return out


def evaluate(expr_or_info, pars, qv, cutoff=0.0, dtype="double"):
    from sasmodels import core as sascore, direct_model
    info = load_info(expr_or_info) if isinstance(expr_or_info, str) else expr_or_info
    key = ("model" if dtype == "double" else "model-" + dtype, info.id if isinstance(expr_or_info, str) else id(info),
           expr_or_info if isinstance(expr_or_info, str) else "")
    model = _info_cache.get(key)
    if model is None:
        model = sascore.build_model(info, dtype=dtype, platform="dll")
        _info_cache[key] = model
    kernel = model.make_kernel(qv)
    try:
        return np.asarray(direct_model.call_kernel(kernel, dict(pars), cutoff=cutoff), float)
    finally:
        kernel.release()


def run_case(case, rec):
    rng = core.rng_for(case["seed"], PROP, case["k"])
    terms = gen_expr(rng, dict(case.get("force") or {}))
    dim = case["dim"]
    expr = expr_string(terms)
    nleaf = sum(len(t) for t in terms)
    # leaves' own parameters
    zero_first = bool((case.get("force") or {}).get("zero_first"))
    # k%4==1: every SLD-bearing component magnetic; k%8==5: only some of them (see classify)
    fmag = (case.get("force") or {}).get("mag")
    want_mag = bool(fmag) or (case["k"] % 4 == 1)
    partial_mag = (fmag == "partial")
    leaves = []
    tags_all = []
    for ti, t in enumerate(terms):
        row = []
        for fi, f in enumerate(t):
            wz = (zero_first and ti == 0 and fi == 0) or (rng.random() < 0.08)
            i, lp, tags = leaf_parameters(f, rng, case["seed"]*7919 + case["k"]*13 + ti*5 + fi, dim,
                                          want_zero=wz, want_pd=True,
                                          want_mag=want_mag and not (partial_mag and (ti + fi) % 2 == 1),
                                          want_empty=bool((case.get("force") or {}).get("empty")) and ti == len(terms) - 1 - (case["k"] % 2)
                                          and fi == 0,
                                          force_npd=(-2 if (case.get("force") or {}).get("bigcount") else 2)
                                          if (case.get("force") or {}).get("manypd") else None)
            row.append((f, i, lp, tags))
            tags_all.append(tags)
        leaves.append(row)
    # q: a common range from the first leaf's size
    f0, i0, lp0, _ = leaves[0][0]
    if dim == "1d":
        q = sas.q_values(i0, lp0, 5, rng)
        if (case.get("force") or {}).get("singular"):
            q[0] = 0.0
            rec.bucket("zero-factor-before-a-factor-singular-at-q=0")
        qv = [q]
    else:
        qx, qy = sas.q_points_2d(i0, lp0, 5, rng)
        qv = [qx, qy]
    try:
        cinfo = load_info(expr)
    except Exception as exc:
        rec.check("expression_loads", False, {"expr": expr, "exception": repr(exc)})
        return
    if (case.get("force") or {}).get("reloaded") and len(terms) == 1:
        # this product has been loaded before, and then a sum that contains it as its second term was loaded (by another
        # part of the program): the product loaded again is still the product
        from sasmodels import core as sascore
        sascore.load_model_info(expr)
        sascore.load_model_info("sphere*line+" + expr)
        sascore.load_model_info("ellipsoid+" + expr + "+sphere")
        _info_cache.pop(expr, None)
        _info_cache.pop(("model", None, expr), None)
        for key_ in [k_ for k_ in _info_cache if isinstance(k_, tuple) and k_[-1] == expr]:
            _info_cache.pop(key_, None)
        cinfo = load_info(expr)
        rec.bucket("product-loaded-again-after-a-sum-containing-it")
    layout = combined_names(cinfo, terms)
    scale, bg = float(rng.uniform(0.1, 3.0)), float(rng.uniform(0.0, 1.0))
    cpars = {"scale": scale, "background": bg}
    expected = np.zeros(len(qv[0]))
    parts_I = []
    refused = None
    for (scale_name, facs), row in zip(layout, leaves):
        xs = 1.0
        if scale_name is not None:
            xs = float(rng.uniform(0.2, 2.0))
            r_ = rng.random()
            if r_ < 0.12:
                xs = float(rng.choice([0.0, -0.0]))     # a component switched off by its scale
                rec.bucket("component-scale:zero")
            elif r_ < 0.2:
                xs = -xs                                 # (a difference of two models)
                rec.bucket("component-scale:negative")
            elif r_ < 0.26:
                xs = float(10**rng.uniform(-12, -6))
                rec.bucket("component-scale:tiny")
            cpars[scale_name] = xs
        term = np.ones(len(qv[0]))
        for pairs, (f, i, lp, tags) in zip(facs, row):
            cpars.update(to_combined(pairs, lp))
            solo = dict(lp, scale=1.0, background=0.0)
            try:
                Ik = evaluate(f, solo, qv)
            except NotImplementedError as exc:
                refused = repr(exc)
                Ik = np.full(len(qv[0]), np.nan)
            parts_I.append((f, Ik))
            term = term*Ik
        expected = expected + xs*term
    expected = scale*expected + bg
    # shared polarisation parameters
    if any("mag" in t for t in tags_all):
        ups = {"up_frac_i": float(rng.uniform(0, 1)), "up_frac_f": float(rng.uniform(0, 1)),
               "up_theta": float(rng.uniform(0, 180)), "up_phi": float(rng.uniform(0, 180))}
        cpars.update(ups)
        # the parts were evaluated without them: redo with the shared values
        expected = np.zeros(len(qv[0]))
        parts_I = []
        for (scale_name, facs), row in zip(layout, leaves):
            xs = cpars.get(scale_name, 1.0) if scale_name else 1.0
            term = np.ones(len(qv[0]))
            for pairs, (f, i, lp, tags) in zip(facs, row):
                solo = dict(lp, scale=1.0, background=0.0)
                if not sas.is_python(i) and i.parameters.nmagnetic > 0:
                    solo.update(ups)
                try:
                    Ik = evaluate(f, solo, qv)
                except NotImplementedError as exc:
                    refused = repr(exc)
                    Ik = np.full(len(qv[0]), np.nan)
                parts_I.append((f, Ik))
                term = term*Ik
            expected = expected + xs*term
        expected = scale*expected + bg
    ctx = {"expr": expr, "dim": dim, "pars": cpars, "q": qv, "parts": [(f, I) for f, I in parts_I]}
    try:
        I = evaluate(expr, cpars, qv)
    except OverflowError as exc:
        # listed finding: the combined table's call details hold the product of ALL components' mesh sizes in a 32-bit
        # field, although no kernel ever walks that combined mesh; classified only when that product exceeds 2^31 - 1
        total = 1
        for kk, vv in cpars.items():
            if kk.endswith("_pd_n") and vv > 1 and cpars.get(kk[:-2], 0):
                total *= int(vv)
        rec.check("equals_stated_combination", False,
                  dict(ctx, note="mixture refused although every part evaluates alone: %r" % (exc,), combined_mesh_points=total),
                  key="C08/combined-mesh-size-overflows-int32" if total > 2**31 - 1 and "int32" in repr(exc) else None)
        rec.bucket("dispersity:combined-mesh-beyond-2^31")
        return
    except NotImplementedError as exc:
        if not refused:
            # every part evaluates alone, so the stated combination exists and the mixture must produce it
            rec.check("equals_stated_combination", False,
                      dict(ctx, note="mixture refused although every part evaluates alone: %r" % (exc,)))
            return
        rec.seen("documented_refusal")
        rec.count("documented_refusals")
        rec.set_shape((expr, dim, "refused"), False)
        return
    if refused:
        # a part refuses magnetism alone but the mixture computed something
        rec.check("equals_stated_combination", False, dict(ctx, note="part refused: " + refused, observed=I))
        return
    zeros = [f for f, Ik in parts_I if np.all(Ik == 0.0)]
    key = None
    anymag = any("mag" in t for t in tags_all)
    bystander = [f for row in leaves for f, i, lp, tags in row
                 if "mag" not in tags and not sas.is_python(i) and i.parameters.nmagnetic > 0]
    pybystander = [f for row in leaves for f, i, lp, tags in row if "@" not in f and sas.is_python(i)]
    if not any(p.type == "sld" for p in cinfo.parameters.kernel_parameters):
        rec.bucket("no-sld-parameter-in-mixture")
    if any("empty" in t for t in tags_all):
        rec.bucket("component-with-empty-mesh")
    if anymag and any("angles-without-amplitude" in t for t in tags_all):
        rec.bucket("magnetic:bystander-with-direction-angles")
    if any("mag-nonpositive" in t for t in tags_all):
        rec.bucket("magnetic:no-positive-component")
    if anymag and pybystander:
        rec.bucket("magnetic:with-python-bystander")
    if anymag and bystander:
        # a component with SLDs but no magnetisation next to a magnetic one (repaired defect 7cb59fce: it used
        # to come out multiplied by (w_dd + w_uu)); no allowance is made for it any more
        rec.bucket("magnetic:with-nonmagnetic-bystander")
    elif anymag:
        rec.bucket("magnetic:all-sld-components")
    if zeros and any(len(t) >= 2 for t in terms) and key is None:
        key = "C08/zero-factor-in-product-treated-as-first"
    smax = float(np.max(np.abs(expected - bg))) if len(expected) else 0.0
    ok = core.close(I, expected, 1e-10, 1e-12*smax)
    rec.check("equals_stated_combination", ok,
              None if ok else dict(ctx, observed=I, expected=expected, zero_components=zeros,
                                   max_rel_err=core.maxrel(I, expected, 1e-12*smax)), key=key)
    # ---- the same expression built in single precision (each compiled component gets values of its own precision)
    if (case.get("force") or {}).get("single") and np.all(np.isfinite(I)):
        from sasmodels import core as sascore, direct_model
        try:
            m32 = sascore.build_model(cinfo, dtype="single", platform="dll")
            I32 = np.asarray(direct_model.call_kernel(m32.make_kernel(qv), dict(cpars)), float)
            # the stated combination of the parts, each evaluated alone in single precision
            exp32 = np.zeros(len(qv[0]))
            for (scale_name, facs), row in zip(layout, leaves):
                xs = cpars.get(scale_name, 1.0) if scale_name else 1.0
                term = np.ones(len(qv[0]))
                for (f, i_, lp, tags) in row:
                    solo32 = dict(lp, scale=1.0, background=0.0)
                    if any("mag" in t_ for t_ in tags_all) and not sas.is_python(i_) and i_.parameters.nmagnetic > 0:
                        solo32.update({kk_: cpars[kk_] for kk_ in ("up_frac_i", "up_frac_f", "up_theta", "up_phi") if kk_ in cpars})
                    term = term*evaluate(f, solo32, qv, dtype="single")
                exp32 = exp32 + xs*term
            exp32 = scale*exp32 + bg
            s32 = float(np.max(np.abs(exp32 - bg)))
            ok32 = core.close(I32, exp32, 2e-4, 1e-5*s32 + 1e-6)
            rec.check("equals_stated_combination", ok32,
                      None if ok32 else dict(ctx, note="single-precision build of the mixture against its parts in single precision",
                                             mixture_single=I32, parts_single=exp32, double=I,
                                             max_rel_err=core.maxrel(I32, exp32, 1e-6*s32)))
            rec.bucket("precision:single")
        except NotImplementedError:
            pass
    # ---- the same mixture kernel reused with another dispersity shape must agree with a fresh kernel
    pdn = sorted(k for k in cpars if k.endswith("_pd_n"))
    if pdn:
        from sasmodels import direct_model
        model = _info_cache[("model", cinfo.id, expr)]
        kern = model.make_kernel(qv)
        seq = [dict(cpars)]
        v1 = dict(cpars)
        v1[pdn[0]] = int(cpars[pdn[0]]) + 1
        seq.append(v1)
        if len(pdn) > 1:
            v2 = dict(cpars)
            v2[pdn[-1]] = int(cpars[pdn[-1]]) + 2
            seq.append(v2)
        seq.append(dict(cpars))
        okr = True
        wit = None
        handed_out = []
        for step, pp in enumerate(seq):
            raw_result = direct_model.call_kernel(kern, dict(pp))
            reused = np.array(raw_result, float)
            handed_out.append((step, raw_result, reused.copy()))
            fresh = evaluate(expr, pp, qv)
            if not np.array_equal(reused, fresh, equal_nan=True):
                okr, wit = False, {"step": step, "changed": [k for k in pp if pp[k] != cpars.get(k)],
                                   "reused_kernel": reused, "fresh_kernel": fresh}
                break
        rec.check("kernel_reuse_consistent", okr, None if okr else dict(ctx, **wit))
        # results handed out earlier are not rewritten by later evaluations of the same kernel
        for step, obj, was in handed_out:
            same = bool(np.array_equal(np.asarray(obj, float), was, equal_nan=True))
            rec.check("earlier_results_not_overwritten", same,
                      None if same else dict(ctx, step=step, was=was, now=np.asarray(obj, float)))
        kern.release()
    # ---- order independence: reverse the terms and the factors within each term
    rterms = [list(reversed(t)) for t in reversed(terms)]
    rexpr = expr_string(rterms)
    if rexpr != expr:
        rinfo = load_info(rexpr)
        rlayout = combined_names(rinfo, rterms)
        rpars = {"scale": scale, "background": bg}
        for k in ("up_frac_i", "up_frac_f", "up_theta", "up_phi"):
            if k in cpars:
                rpars[k] = cpars[k]
        for (rscale, rfacs), (oscale, ofacs), row in zip(rlayout, reversed(layout), reversed(leaves)):
            if rscale is not None:
                rpars[rscale] = cpars[oscale]
            for pairs, (f, i, lp, tags) in zip(rfacs, reversed(row)):
                rpars.update(to_combined(pairs, lp))
        I2 = evaluate(rexpr, rpars, qv)
        ok2 = core.close(I2, I, 1e-12, 1e-13*smax)
        rec.check("order_independent", ok2, None if ok2 else dict(ctx, reordered=rexpr, observed=I2, original=I),
                  key=key)
    # ---- accounting
    if len(terms) > 1:
        rec.bucket("op:+")
    if any(len(t) > 1 for t in terms):
        rec.bucket("op:*")
    if any("@" in f for t in terms for f in t):
        rec.bucket("op:@")
    if len(terms) > 1 and any(len(t) > 1 for t in terms):
        rec.bucket("nested:product-in-sum")
    rec.bucket("dim:" + dim, "lane:" + case.get("lane", "plain"))
    if zeros:
        rec.bucket("zero:some-component")
    if zeros and terms and len(terms[0]) >= 2 and parts_I and np.all(parts_I[0][1] == 0.0):
        rec.bucket("zero:first-factor")
    if sum(1 for t in tags_all if "pd" in t) >= 2:
        rec.bucket("dispersity:>=2-components")
    ndist = sum(1 for row in leaves for _f, _i, lp_, _t in row for kk, vv in lp_.items()
                if kk.endswith("_pd_n") and vv > 1 and lp_.get(kk[:-2], 0) > 0)
    if ndist > 5:
        rec.bucket("dispersity:more-distributions-than-one-kernel-loops")
    if any("mag" in t for t in tags_all):
        rec.bucket("magnetic")
    for row in leaves:
        for f, i, lp, tags in row:
            if i.structure_factor:
                rec.bucket("bare-structure-factor-component")
            if any(p.length > 1 for p in i.parameters.kernel_parameters):
                rec.bucket("vector-component")
            if sas.is_python(i) if "@" not in f else False:
                rec.bucket("python-component")
            if i.parameters.orientation_parameters:
                rec.bucket("oriented-component")
    contributing = sum(1 for f, Ik in parts_I if np.any(Ik != 0))
    rec.set_shape((expr, dim, sorted(k for k in cpars if k.endswith("_pd_type")), zeros,
                   any("mag" in t for t in tags_all)), nontrivial=contributing >= 2 or bool(zeros))
    if case["k"] < 3:
        rec.observe(expr=expr, dim=dim, I=I, expected=expected, parts=[(f, Ik) for f, Ik in parts_I])


def classify(case, v):
    return v.get("key")


LEVEL_TEXT = ("Generated sum/product/@ expressions over the builtin models are evaluated through the real mixture kernels "
              "and compared with the stated combination of separately built and separately evaluated parts (parameters "
              "mapped by table position), including exactly-zero components, dispersity in several parts, magnetic, "
              "oriented, vector-parameter and Python components; plus an order-permutation metamorphic monitor and an "
              "ASan/UBSan lane.  Exploration over generated programs.")
LEVEL_NOTE = "Trusts each leaf / P@S group evaluated alone as I_k (their correctness is C01/C07); 2..4 components."
TECHNIQUE = "differential reference monitor over generated model expressions + order metamorphic monitor + ASan/UBSan lane"
