"""
C06 - polarised magnetic scattering is the weighted sum of the four spin channels.

The real magnetic 2-D kernel is compared, per q point, with the documented
recombination of *non-magnetic* calls of the same kernel in which every SLD has
been replaced by the channel's effective SLD.
"""
from __future__ import annotations

import math

import numpy as np

from rtm import core, sas

PROP = "C06"
LEVEL = "exploration"
RULE = ("All compiled models with SLD parameters x 1..all SLDs magnetic (vector SLDs up to 10 shells) with arbitrary "
        "(M0, mtheta, mphi) x up_frac_i/f in {0, 0.5, 1, random, slightly outside [0,1]} x up_theta/up_phi random and on "
        "the axes x (qx,qy) directions x with and without size/orientation dispersity.  Distinct: hash of (model, which "
        "SLDs are magnetic, up_frac class, dispersed parameters).  Non-trivial: at least one M0 is non-zero.")
ASSUMPTIONS = ["each I(.) is a non-magnetic call of the same 2-D kernel at that q with every SLD replaced (C01/C05 cover those)",
               "tolerance covers the kernel's documented skip of channels with weight <= 1e-8; |q|^2 <= 1e-16 is not generated"]
REQUIRED_MONITORS = ["equals_channel_sum", "zero_magnetisation_is_nonmagnetic"]
REQUIRED_BUCKETS = {"quick": ["up_frac:0", "up_frac:0.5", "up_frac:1", "up_frac:outside", "up_frac:random", "axis:up_theta90",
                              "axis:tilted", "magnetic_slds:1", "magnetic_slds:all", "vector_sld", "dispersity", "oriented",
                              "lane:asan", "nonmagnetic_sld_with_nonzero_angles", "mesh>100",
                              "angles:outside-nominal-range", "entry:call_Fq", "entry:sasview", "cutoff>0:small-channel-weight", "magnetisation-along-polarisation-axis", "reparameterised-model"]}
REQUIRED_BUCKETS["thorough"] = REQUIRED_BUCKETS["quick"]


def mag_models():
    return [m for m in sas.compiled_models() if sas.info(m).parameters.nmagnetic > 0 and not sas.raw(sas.info(m)).has_iqxy]


REPARAMS = {
    # models given other parameters (core.reparameterize): base SLDs defined through new SLD-typed parameters
    "rtm06_rep_sphere": ("sphere", [["contrast_sld", "1e-6/Ang^2", 2.5, [-np.inf, np.inf], "sld", "sld above the solvent"]],
                         "sld = sld_solvent + contrast_sld"),
    "rtm06_rep_core_shell_sphere": ("core_shell_sphere", [["mix", "", 0.4, [0, 1], "", "core fraction in the shell"]],
                                    "sld_shell = mix*sld_core + (1.0 - mix)*sld_solvent"),
}


# sums of models: the SLDs of every term (scalar ones and the elements of vector SLDs, in either order of the terms) carry
# their own magnetisation
COMPOSITES = ["core_multi_shell+sphere", "sphere+core_multi_shell", "core_shell_cylinder+onion"]


def _register_reparams():
    from sasmodels import core as sascore
    for nm, (base, new, text) in REPARAMS.items():
        if nm not in sas._cache["info"]:
            sas._cache["info"][nm] = sascore.reparameterize(sas.info(base), new, text, name=nm)


def worker_init(tier, seed):
    sas.install_poison()
    _register_reparams()


def gen_cases(tier, seed):
    n = 4 if tier == "quick" else 40
    cases = []
    mm = mag_models()
    for m in mm:
        for k in range(n):
            cases.append({"id": "%s/%03d" % (m, k), "model": m, "k": k, "seed": seed, "group": m, "lane": "plain"})
    for m in REPARAMS:
        for k in range(n):
            cases.append({"id": "%s/%03d" % (m, k), "model": m, "k": k, "seed": seed, "group": m, "lane": "plain"})
    for m in COMPOSITES:
        for k in range(n):
            cases.append({"id": "%s/%03d" % (m, k), "model": m, "k": k, "seed": seed, "group": m, "lane": "plain", "cost": 3})
    for m in (["sphere", "core_shell_cylinder", "core_multi_shell", "parallelepiped"] if tier == "quick" else mm):
        cases.append({"id": "asan/" + m, "model": m, "k": 5, "seed": seed + 1, "group": "asan-" + m, "lane": "asan", "cost": 4})
    return cases


def unit(theta, phi):
    t, p = math.radians(theta), math.radians(phi)
    return np.array([math.sin(t)*math.cos(p), math.sin(t)*math.sin(p), math.cos(t)])


def run_case(case, rec):
    from sasmodels import direct_model
    _register_reparams()
    name, k = case["model"], case["k"]
    if name in REPARAMS:
        rec.bucket("reparameterised-model")
    i = sas.info(name)
    rng = core.rng_for(case["seed"], PROP, name, k)
    pars = sas.base_pars(i, case["seed"]*53 + k)
    active = sas.active_names(i, pars)
    slds = [p.name for p in i.parameters.call_parameters if p.type == "sld" and p.name in active]
    # dispersity
    if k % 2 == 1:
        cand = sas.usable_pd(i, pars, "2d")
        rng.shuffle(cand)
        for p in cand[:2]:
            if p.type == "orientation":
                sas.add_pd(pars, p, "gaussian", 3, float(rng.uniform(3, 20)), 2.0)
            else:
                lo, hi = p.limits
                v = pars[p.name]
                room = min(abs(v - lo), abs(hi - v))/abs(v)
                w = min(float(rng.uniform(0.05, 0.2)), 0.9*room/2.0)
                if w > 0:
                    sas.add_pd(pars, p, "gaussian", 3, w, 2.0)
        rec.bucket("dispersity")
    if k % 4 == 3:
        # a size mesh of more than 100 points: the compiled kernel is re-entered with its running sums
        sizes = [p for p in sas.usable_pd(i, pars, "2d") if p.type == "volume"]
        if sizes and name not in COMPOSITES and sas.eval_cost(i, "2d") < 5e-4:
            p = sizes[int(rng.integers(len(sizes)))]
            lo, hi = p.limits
            v = pars[p.name]
            room = min(abs(v - lo), abs(hi - v))/abs(v)
            w = min(0.15, 0.9*room/2.0)
            if w > 0:
                for kk in [kk for kk in pars if kk.endswith(("_pd", "_pd_n", "_pd_nsigma", "_pd_type"))]:
                    del pars[kk]
                sas.add_pd(pars, p, "gaussian", int(rng.choice([107, 131, 215])), w, 2.0)
                rec.bucket("mesh>100")
    if i.parameters.orientation_parameters:
        rec.bucket("oriented")
        for a in i.parameters.orientation_parameters:
            pars[a.name] = float(rng.uniform(-90, 90))
    # which SLDs are magnetic
    if k % 4 == 0:
        mags = [slds[int(rng.integers(len(slds)))]]
        rec.bucket("magnetic_slds:1")
    elif k % 4 == 1:
        mags = list(slds)
        rec.bucket("magnetic_slds:all")
    else:
        mags = [s for s in slds if rng.random() < 0.5] or [slds[0]]
    if name in COMPOSITES:
        # every term of the sum is magnetic (a term without magnetisation is evaluated as a non-magnetic model)
        for pre in ("A_", "B_"):
            own = [s_ for s_ in slds if s_.startswith(pre)]
            if own and not any(s_ in mags for s_ in own):
                mags.append(own[int(rng.integers(len(own)))])
        rec.bucket("sum-of-models")
    if any(s[-1].isdigit() for s in mags):
        rec.bucket("vector_sld")
    M = {}
    for s in slds:
        if s in mags:
            M[s] = (float(rng.uniform(-5, 5)) or 1.0, float(rng.uniform(-90, 90)), float(rng.uniform(-180, 180)))
            if (k + len(name)) % 3 == 1:
                # directions given outside the nominal range of the angles (angles are directions, any real value)
                M[s] = (M[s][0], float(rng.choice([-1, 1]))*float(rng.uniform(95, 260)), float(rng.uniform(190, 400)))
                rec.bucket("angles:outside-nominal-range")
        elif rng.random() < 0.5:
            # zero magnitude but non-zero angles: must behave as non-magnetic
            M[s] = (0.0, float(rng.uniform(-90, 90)), float(rng.uniform(-180, 180)))
            rec.bucket("nonmagnetic_sld_with_nonzero_angles")
        else:
            M[s] = (0.0, 0.0, 0.0)
    cls = ["0", "0.5", "1", "outside", "random"][(k + len(name)) % 5]
    draw = {"0": lambda: 0.0, "0.5": lambda: 0.5, "1": lambda: 1.0, "outside": lambda: float(rng.choice([-0.1, 1.15])),
            "random": lambda: float(rng.uniform(0, 1))}[cls]
    ui, uf = draw(), (draw() if rng.random() < 0.5 else float(rng.uniform(0, 1)))
    rec.bucket("up_frac:" + cls)
    if k % 3 == 0:
        ut, up = 90.0, float(rng.choice([0.0, 35.0, 90.0]))
        rec.bucket("axis:up_theta90")
    elif (k + len(name)) % 3 == 1:
        ut, up = float(rng.uniform(365, 500)), float(rng.choice([-1, 1]))*float(rng.uniform(185, 340))
        rec.bucket("axis:tilted", "angles:outside-nominal-range")
    else:
        ut, up = float(rng.uniform(5, 175)), float(rng.uniform(5, 175))
        rec.bucket("axis:tilted")
    if (k + len(name)) % 8 == 7:
        # polarisation axis exactly along the beam (up_theta 0, the edge of its declared range) or exactly against it,
        # with weight in every channel
        ut, up = float([0.0, 180.0, 0.0, 360.0][(k//8 + len(name)) % 4]), float(rng.uniform(0, 180))
        ui, uf = float(rng.uniform(0.2, 0.8)), float(rng.uniform(0.2, 0.8))
        rec.bucket("axis:along-the-beam")
    if k % 6 == 5 or (k % 6 == 2 and len(mags) > 1):
        # a saturated sample: every magnetisation exactly along (or exactly against) the polarisation axis, with both
        # spin-flip and non-spin-flip weight
        for j_, s_ in enumerate(mags):
            M[s_] = (abs(M[s_][0])*(-1.0 if j_ % 2 else 1.0), ut, up)
        ui, uf = float(rng.uniform(0.2, 0.8)), float(rng.uniform(0.2, 0.8))
        rec.bucket("magnetisation-along-polarisation-axis")
    cutoff = 0.0
    if k % 4 == 1 and any(kk.endswith("_pd_n") for kk in pars):
        # a weight cutoff above zero together with a small but non-zero weight of some spin channels: the cutoff acts
        # on the mesh weights alone, every retained mesh point contributes all four channels
        cutoff = float(10**rng.uniform(-4, -2))
        ui, uf = float(rng.uniform(0.01, 0.05)), float(rng.uniform(0.94, 0.99))
        rec.bucket("cutoff>0:small-channel-weight")
    mpars = dict(pars, up_frac_i=ui, up_frac_f=uf, up_theta=ut, up_phi=up)
    for s, (m0, mt, mp) in M.items():
        mpars[s + "_M0"], mpars[s + "_mtheta"], mpars[s + "_mphi"] = m0, mt, mp
    qx, qy = sas.q_points_2d(i, pars, 5, rng)
    model = sas.build(name)
    kernel = model.make_kernel([qx, qy])
    I = np.asarray(direct_model.call_kernel(kernel, dict(mpars), cutoff=cutoff), float)
    if not np.any(np.isfinite(np.asarray(direct_model.call_kernel(kernel, dict(pars)), float))):
        rec.skip("the non-magnetic model is undefined (NaN) at this parameter set")
        rec.set_shape((name, "undefined"), False)
        return
    scale, bg = pars.get("scale", 1.0), pars.get("background", 0.0)
    # --- oracle
    ci, cf = min(max(ui, 0.0), 1.0), min(max(uf, 0.0), 1.0)
    norm = max(cf, 1 - cf)
    w = {"dd": (1 - ci)*(1 - cf)/norm, "du": (1 - ci)*cf/norm, "ud": ci*(1 - cf)/norm, "uu": ci*cf/norm}
    P = unit(ut, up)
    e1 = np.array([-math.sin(math.radians(up)), math.cos(math.radians(up)), 0.0])
    e2 = np.array([-math.cos(math.radians(ut))*math.cos(math.radians(up)),
                   -math.cos(math.radians(ut))*math.sin(math.radians(up)), math.sin(math.radians(ut))])
    Mvec = {s: m0*unit(mt, mp) for s, (m0, mt, mp) in M.items()}
    exp = np.zeros(len(qx))
    slack = np.zeros(len(qx))
    evenness = 0.0
    base = dict(pars, scale=1.0, background=0.0)
    for j in range(len(qx)):
        qhat = np.array([qx[j], qy[j], 0.0])/math.hypot(qx[j], qy[j])
        # the same direction formed with the other common arithmetic (one ulp apart): models that amplify a last-bit change
        # of an SLD by many orders of magnitude (spherical_sld at q*size << 1) are judged with the response to that change
        qhat_b = np.array([qx[j], qy[j], 0.0])*(1.0/math.sqrt(qx[j]*qx[j] + qy[j]*qy[j]))*(1.0 + 2.3e-16)
        k1 = model.make_kernel([qx[j:j+1], qy[j:j+1]])

        def call(fn):
            p = dict(base)
            for s in slds:
                Mp = Mvec[s] - qhat*float(np.dot(qhat, Mvec[s]))
                p[s] = fn(pars[s], Mp)
            return float(direct_model.call_kernel(k1, p, cutoff=cutoff)[0])
        Idd = call(lambda rho, Mp: rho - float(np.dot(P, Mp)))
        Iuu = call(lambda rho, Mp: rho + float(np.dot(P, Mp)))
        Ie1 = call(lambda rho, Mp: float(np.dot(e1, Mp)))
        Ie2 = call(lambda rho, Mp: float(np.dot(e2, Mp)))
        Ie2m = call(lambda rho, Mp: -float(np.dot(e2, Mp)))
        evenness = max(evenness, abs(Ie2 - Ie2m)/(abs(Ie2) + 1e-300))
        exp[j] = w["dd"]*Idd + w["uu"]*Iuu + w["du"]*(Ie1 + Ie2m) + w["ud"]*(Ie1 + Ie2)
        slack[j] = 1e-8*(abs(Idd) + abs(Iuu) + 2*abs(Ie1) + abs(Ie2) + abs(Ie2m))
        qhat_a, qhat = qhat, qhat_b
        alt = w["dd"]*call(lambda rho, Mp: rho - float(np.dot(P, Mp))) + w["uu"]*call(lambda rho, Mp: rho + float(np.dot(P, Mp))) \
            + (w["du"] + w["ud"])*call(lambda rho, Mp: float(np.dot(e1, Mp))) \
            + w["du"]*call(lambda rho, Mp: -float(np.dot(e2, Mp))) + w["ud"]*call(lambda rho, Mp: float(np.dot(e2, Mp)))
        qhat = qhat_a
        slack[j] += 20.0*abs(alt - exp[j])
        k1.release()
    exp = scale*exp + bg
    ok = bool(np.all(np.abs(I - exp) <= 1e-9*np.abs(exp) + scale*slack + 1e-300))
    ctx = {"model": name, "pars": mpars, "qx": qx, "qy": qy, "weights": w, "sld_evenness": evenness}
    rec.check("equals_channel_sum", ok, None if ok else dict(ctx, observed=I, expected=exp,
                                                              max_rel_err=core.maxrel(I, exp)))
    rec.check("no_stale_result", not sas.has_poison(I), ctx)
    # the amplitude entry point on the same request: <F^2> and the shell volume it returns reproduce the intensity,
    # i.e. it evaluates the same four-channel sum
    if k % 3 == 0 and not any(kk.endswith("_pd_n") for kk in pars):
        # the SasView-style model object on the same 2-D request
        from sasmodels import sasview_model
        m_ = (sasview_model.make_model_from_info(i) if (name in REPARAMS or name in COMPOSITES)
              else sasview_model._make_standard_model(name))()
        for kk, vv in mpars.items():
            m_.setParam(kk, vv)
        m_.cutoff = cutoff
        Isv = np.asarray(m_.evalDistribution([qx.copy(), qy.copy()]), float)
        oksv = bool(np.all(np.abs(Isv - exp) <= 1e-9*np.abs(exp) + scale*slack + 1e-300))
        rec.check("equals_channel_sum", oksv,
                  None if oksv else dict(ctx, entry="SasviewModel.evalDistribution([qx, qy])", observed=Isv, expected=exp,
                                         from_call_kernel=I, max_rel_err=core.maxrel(Isv, exp)))
        rec.bucket("entry:sasview")
    if k % 2 == 0 and name not in COMPOSITES:       # (sums of models do not offer the amplitude entry)
        _F1, F2, _R, Vs, _ratio = direct_model.call_Fq(kernel, dict(mpars), cutoff=cutoff)
        Ifq = scale*np.asarray(F2, float)/float(Vs) + bg
        okf = bool(np.all(np.abs(Ifq - exp) <= 1e-9*np.abs(exp) + scale*slack + 1e-300))
        rec.check("equals_channel_sum", okf,
                  None if okf else dict(ctx, entry="call_Fq: scale*<F^2>/V_shell + background", observed=Ifq, expected=exp,
                                        from_call_kernel=I, max_rel_err=core.maxrel(Ifq, exp)))
        rec.bucket("entry:call_Fq")
    # all magnitudes zero: bit-identical to the non-magnetic call
    zpars = dict(mpars)
    for s in slds:
        zpars[s + "_M0"] = 0.0
    Iz = np.asarray(direct_model.call_kernel(kernel, zpars, cutoff=cutoff), float)
    In = np.asarray(direct_model.call_kernel(kernel, dict(pars), cutoff=cutoff), float)
    rec.check("zero_magnetisation_is_nonmagnetic", bool(np.array_equal(Iz, In, equal_nan=True)),
              dict(ctx, zero_M0=Iz, nonmagnetic=In))
    rec.bucket("lane:" + case.get("lane", "plain"))
    rec.set_shape((name, sorted(mags), cls, sorted(kk for kk in pars if kk.endswith("_pd_n"))), nontrivial=True)
    if k == 0:
        rec.observe(model=name, magnetic=mags, up=[ui, uf, ut, up], I=I, expected=exp)
    kernel.release()


LEVEL_TEXT = ("The real magnetic 2-D kernel of every SLD-bearing compiled model is compared per q point with the documented "
              "six-term recombination of non-magnetic calls at channel-effective SLDs (independent vector algebra in the "
              "harness), over up-fractions incl. 0/0.5/1 and outside [0,1], tilted polarisation axes, vector SLDs and "
              "dispersity; M0=0 must be bit-identical to the non-magnetic call; reduced copy under ASan/UBSan.")
LEVEL_NOTE = "Trusts the non-magnetic 2-D kernel as I(.) (checked by C01/C05) and the statement's vector conventions."
TECHNIQUE = "reference-model monitor (channel recombination of non-magnetic calls of the real kernel) + bit-identity monitor + ASan/UBSan lane"
