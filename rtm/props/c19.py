"""
C19 - the SESANS transform is the Hankel transform G(xi)-G(0) of I(q).

The real SesansTransform (and direct_model.Gxi / DirectModel on SESANS data)
is applied to Gaussians and sums of Gaussians whose Hankel pairs are known in
closed form, and to arbitrary vectors for linearity.
"""
from __future__ import annotations

import math

import numpy as np

from rtm import core

PROP = "C19"
LEVEL = "exploration"
RULE = ("Spin-echo length grids (1..200 points, linear and log, 10 A .. 10 um) x wavelength 2..12 A x acceptance "
        "(open, or a cut placed below 1/s) x I(q) = sum_k c_k exp(-q^2 s_k^2/2) with every 1/s_k at least a factor 30 "
        "inside the calculated q range and below the acceptance cut.  Distinct: hash of (grid kind, n, rounded log "
        "ranges, wavelength, acceptance class, number of Gaussians).  Non-trivial: |G(xi)-G(0)| exceeds 1% of G(0) for "
        "some xi (the transform is not flat).")
ASSUMPTIONS = [
    "stated quadrature accuracy: 1e-3 of max|exact| (right-Riemann rule on a 1.0003-ratio log grid, error ~1.5e-4)",
    "the acceptance mask applies to the J0 term only; G(0) is taken over the whole calculated range (as the code "
    "documents it: H masked, H0 not)",
    "spin-echo lengths are given in increasing order, as in data files",
]
REQUIRED_MONITORS = ["q_calc_positive_increasing", "linear", "gaussian_hankel_pair", "single_point_consistent",
                     "acceptance_masks_integral", "background_does_not_leak", "construction_order_independent"]
REQUIRED_BUCKETS = {"quick": ["grid:linear", "grid:log", "n:1", "n:2..9", "n:10..200", "gaussians:1", "gaussians:>1",
                              "acceptance:open", "acceptance:cut", "via:Gxi", "via:DirectModel", "wavelength:short",
                              "acceptance:on-data-tof", "acceptance:on-data-mono", "order:permuted",
                              "via:DirectModel:data-edited-in-place", "grid:log-full-range",
                              "via:Gxi:long-log-grid", "linear:curves-ending-at-different-q", "via:Gxi:threads", "fault:allocation-fails:raised", "via:DirectModel:single-precision-model", "xi<<s:per-point-relative"]}
REQUIRED_BUCKETS["thorough"] = REQUIRED_BUCKETS["quick"]


def gen_cases(tier, seed):
    n = 80 if tier == "quick" else 2000
    cases = [{"id": "t/%04d" % k, "k": k, "seed": seed, "kind": "transform", "group": "g%d" % (k % 64)} for k in range(n)]
    cases.append({"id": "direct", "kind": "direct", "seed": seed, "group": "direct", "cost": 8})
    cases.append({"id": "threads", "kind": "threads", "seed": seed, "group": "threads", "cost": 8})
    for k in range(2 if tier == "quick" else 10):
        cases.append({"id": "fault/%d" % k, "kind": "fault", "k": k, "seed": seed, "group": "fault%d" % k, "cost": 3})
    return cases


def exact_pair(xi, cs, ss):
    xi = np.asarray(xi, float)
    out = np.zeros_like(xi)
    for c, s in zip(cs, ss):
        out += c*(np.exp(-xi**2/(2*s*s)) - 1.0)/(2*math.pi*s*s)
    return out


def run_transform(case, rec):
    from sasmodels import sesans
    rng = core.rng_for(case["seed"], PROP, case["k"])
    k = case["k"]
    nclass = ["1", "2..9", "10..200"][k % 3]
    n = {"1": 1, "2..9": int(rng.integers(2, 10)), "10..200": int(rng.integers(10, 201))}[nclass]
    kind = "log" if (k // 3) % 2 else "linear"
    lo = float(10**rng.uniform(1.0, 3.0))
    hi = min(lo*float(10**rng.uniform(0.5, 2.5)), 1.0e5)
    if k % 9 == 8 and n >= 10:
        # the whole quantified range on a log grid, 100-200 points (the calculated q grid is then at its largest)
        kind, n = "log", int(rng.integers(100, 201))
        lo, hi = 10.0, 1.0e5
        rec.bucket("grid:log-full-range")
    if n == 1:
        xi = np.array([float(10**rng.uniform(1.5, 4.5))])
    elif kind == "linear":
        xi = np.linspace(lo, hi, n)
    else:
        xi = np.logspace(math.log10(lo), math.log10(hi), n)
    lam = float(rng.uniform(2, 12)) if k % 5 else float(rng.uniform(1.0, 2.2))
    if lam < 2.2:
        rec.bucket("wavelength:short")
    lamv = np.full(len(xi), lam)
    rec.bucket("grid:" + kind, "n:" + nclass)
    zopen = 2*math.pi/lam*math.sin(math.pi/2)
    ctx = {"xi_first_last": [float(xi[0]), float(xi[-1])], "n": n, "grid": kind, "wavelength": lam}
    T = sesans.SesansTransform(xi, xi, lamv, min(zopen, math.pi/2) if False else zopen, 1e7)
    q = np.asarray(T.q_calc, float)
    rec.check("q_calc_positive_increasing", bool(np.all(q > 0) and np.all(np.diff(q) > 0) and len(q) > 10),
              dict(ctx, q_first=q[:3], nq=len(q)))
    # linearity
    f, g = rng.uniform(0, 1, len(q)), np.exp(-q*float(rng.uniform(1, 100)))
    a, b = float(rng.uniform(-3, 3)), float(rng.uniform(-3, 3))
    lhs = T.apply(a*f + b*g)
    rhs = a*T.apply(f) + b*T.apply(g)
    scale = float(np.max(np.abs(T.apply(np.abs(a)*f + np.abs(b)*g)))) + 1e-300
    rec.check("linear", bool(np.all(np.abs(lhs - rhs) <= 1e-11*scale)), dict(ctx, worst=float(np.max(np.abs(lhs - rhs)))/scale))
    # linearity over curves that end at different q (cut-off curves, single-q impulses): the map is one fixed
    # linear map of the whole calculated I(q) vector
    m1, m2 = sorted(int(x) for x in rng.integers(1, len(q), 2))
    f2, g2 = np.where(np.arange(len(q)) <= m1, f, 0.0), np.where(np.arange(len(q)) <= m2, 1.0 + g, 0.0)
    e1, e2 = np.zeros(len(q)), np.zeros(len(q))
    e1[m1], e2[min(m2 + 1, len(q) - 1)] = 1.0, 1.0
    for nm, (u, v_) in (("cut-off curves", (f2, g2)), ("impulses", (e1, e2)), ("impulse and full curve", (e2, f))):
        lhs2 = T.apply(a*u + b*v_)
        rhs2 = a*T.apply(u) + b*T.apply(v_)
        sc2 = float(np.max(np.abs(T.apply(np.abs(a)*np.abs(u) + np.abs(b)*np.abs(v_))))) + 1e-300
        rec.check("linear", bool(np.all(np.abs(lhs2 - rhs2) <= 1e-9*sc2)),      # (G - G(0) cancels; rounding of ~5e4-term sums)
                  dict(ctx, curves=nm, last_nonzero_index=[m1, m2], nq=len(q), worst=float(np.max(np.abs(lhs2 - rhs2)))/sc2))
    last = np.zeros(len(q))
    last[-1] = 1.0
    rec.check("linear", bool(np.any(T.apply(last) != 0.0)),
              dict(ctx, curves="impulse at the last calculated q: it is part of the integral", got=T.apply(last)[:4]))
    rec.bucket("linear:curves-ending-at-different-q")
    # the acceptance cut in q (arcsin(q lam / 2 pi) <= zaccept)
    qcut_open = 2*math.pi/lam*math.sin(min(zopen, math.pi/2)) if zopen <= math.pi/2 else 2*math.pi/lam
    qlo, qhi = float(q[0]), min(float(q[-1]), qcut_open)
    # Gaussians with 1/s a factor 30 inside the range
    if qhi/qlo < 30.0*30.0*1.05:
        rec.count("range_too_narrow_for_gaussians")
        rec.set_shape((kind, n, "narrow"), False)
        return
    ng = 1 if k % 2 == 0 else int(rng.integers(2, 5))
    inv = np.exp(rng.uniform(math.log(30*qlo), math.log(qhi/30), ng))
    ss = 1.0/inv
    cs = rng.uniform(0.2, 3.0, ng)
    Iq = sum(c*np.exp(-q*q*s*s/2) for c, s in zip(cs, ss))
    got = T.apply(Iq)
    exact = exact_pair(xi, cs, ss)
    scale = float(np.max(np.abs(exact)))
    g0 = float(sum(c/(2*math.pi*s*s) for c, s in zip(cs, ss)))
    ok = bool(np.all(np.abs(got - exact) <= 1e-3*max(scale, 1e-3*g0)))
    rec.check("gaussian_hankel_pair", ok,
              None if ok else dict(ctx, s=ss, c=cs, got=got[:6], exact=exact[:6],
                                   worst_over_tol=float(np.max(np.abs(got - exact))/(1e-3*max(scale, 1e-3*g0))),
                                   q_range=[qlo, float(q[-1])], acceptance_cut=qcut_open))
    rec.bucket("gaussians:1" if ng == 1 else "gaussians:>1", "acceptance:open")
    # the same set of spin-echo lengths listed in another order (interleaved passes, revisited points): each value
    # belongs to its own xi.  The first two and the last entry stay in place because the code derives its q range
    # from them; the interior is permuted with cycles of every length.
    if n >= 6:
        perm = np.arange(n)
        inner = perm[2:-1].copy()
        rng.shuffle(inner)
        if np.array_equal(inner, perm[2:-1]):
            inner = np.roll(inner, 1)
        perm[2:-1] = inner
        Tp = sesans.SesansTransform(xi[perm], xi[perm], lamv[perm], zopen, 1e7)
        samegrid = len(Tp.q_calc) == len(q) and bool(np.array_equal(np.asarray(Tp.q_calc), q))
        gotp = Tp.apply(Iq) if samegrid else None
        # (the matrix-vector product may sum in another order for another column layout: rounding only)
        okp = samegrid and bool(np.all(np.abs(gotp - got[perm]) <= 1e-11*max(g0, float(np.max(np.abs(got))))))
        rec.check("value_belongs_to_its_spin_echo_length", okp,
                  None if okp else dict(ctx, permutation=perm[:12], same_q_grid=samegrid,
                                        got=None if gotp is None else gotp[:8], expected=got[perm][:8]))
        rec.bucket("order:permuted")
    # single point vs the same point inside the set, with a Gaussian whose width is comparable to xi_j
    j = int(rng.integers(n))
    sj = float(xi[j]/rng.uniform(0.7, 3.0))
    T1 = sesans.SesansTransform(xi[j:j+1], xi[j:j+1], lamv[j:j+1], zopen, 1e7)
    q1 = np.asarray(T1.q_calc)
    one = float(T1.apply(np.exp(-q1*q1*sj*sj/2))[0])
    ex1 = float(exact_pair(xi[j:j+1], [1.0], [sj])[0])
    g01 = 1.0/(2*math.pi*sj*sj)
    if 1.0/sj <= qcut_open/30:
        ok1 = abs(one - ex1) <= 1e-3*g01
        detail = dict(ctx, xi=float(xi[j]), s=sj, single=one, exact=ex1)
        if n > 1 and 30*qlo <= 1.0/sj <= qhi/30:
            inset = float(T.apply(np.exp(-q*q*sj*sj/2))[j])
            ok1 = ok1 and abs(one - inset) <= 2e-3*g01
            detail["in_set"] = inset
        rec.check("single_point_consistent", ok1, detail)
    # acceptance: a cut placed below 1/s of the narrowest Gaussian in q
    if k % 2 == 1 or ng == 1:
        from scipy.integrate import quad
        from scipy.special import j0
        target = float(np.min(inv))*float(rng.uniform(0.3, 0.9))
        x = target*lam/(2*math.pi)
        if x < 1.0:
            zacc = math.asin(x)
            Tm = sesans.SesansTransform(xi, xi, lamv, zacc, 1e7)
            qm = np.asarray(Tm.q_calc)
            gotm = Tm.apply(sum(c*np.exp(-qm*qm*s*s/2) for c, s in zip(cs, ss)))
            fI = lambda t: sum(c*math.exp(-t*t*s*s/2) for c, s in zip(cs, ss))
            # closed form of int t exp(-t^2 s^2/2) dt over the calculated range
            G0 = sum(c*(math.exp(-qm[0]**2*s*s/2) - math.exp(-qm[-1]**2*s*s/2))/(s*s)
                     for c, s in zip(cs, ss))/(2*math.pi)
            ref = []
            for x_ in xi[:8]:
                # J0 term over the unmasked range only
                edges = np.linspace(qm[0], target, max(8, int(4*x_*target)))
                Gm = sum(quad(lambda t: float(j0(t*x_))*fI(t)*t, a_, b_, epsabs=0, epsrel=1e-10)[0]
                         for a_, b_ in zip(edges[:-1], edges[1:]))/(2*math.pi)
                ref.append(Gm - G0)
            ref = np.array(ref)
            tolm = 2e-3*max(float(np.max(np.abs(ref))), 1e-3*G0)
            okm = bool(np.all(np.abs(gotm[:8] - ref) <= tolm))
            differs = bool(np.any(np.abs(gotm[:8] - got[:8]) > 10*tolm)) or target > 3*float(np.max(inv))
            rec.check("acceptance_masks_integral", okm,
                      None if okm else dict(ctx, cut_q=target, got=gotm[:6], masked_integral=ref[:6], unmasked=got[:6]))
            rec.bucket("acceptance:cut")
            # constructing a narrow-acceptance transform must not change a later open one on the same grid
            T2 = sesans.SesansTransform(xi, xi, lamv, zopen, 1e7)
            again = T2.apply(Iq)
            rec.check("construction_order_independent", bool(np.array_equal(again, got)),
                      dict(ctx, first=got[:4], after_narrow_transform=again[:4]))
    rec.set_shape((kind, n, round(math.log10(xi[0]), 1), round(math.log10(xi[-1]), 1), round(lam), ng),
                  nontrivial=bool(np.max(np.abs(exact)) > 0.01*g0))
    if k < 4:
        rec.observe(**dict(ctx, s=ss, got=got[:4], exact=exact[:4], nq=len(q)))


def run_direct(case, rec):
    """Through the public interface: Gxi / DirectModel on SESANS data; the background must not leak in."""
    from sasmodels import direct_model, core as sascore, data as sdata
    rng = core.rng_for(case["seed"], PROP, "direct")
    for rep in range(8):
        xi = np.linspace(200.0, 8000.0, int(rng.integers(60, 120)))
        # 1/s between 1e-4 and 1.5e-3 1/A: a factor 30 inside the calculated q range of this grid
        rg = float(math.sqrt(1.5)/10**rng.uniform(-4.0, -2.83))
        if rep >= 6:
            # long log grids (65-200 points over 2-4 decades); 1/s a factor 30 inside the q range the calculator of
            # this data set uses
            xi = np.logspace(float(rng.uniform(1.0, 2.0)), float(rng.uniform(4.0, 5.0)), int(rng.choice([65, 129, 150, 193, 200])))
            qc_ = np.asarray(direct_model.DirectModel(sdata.empty_sesans(xi), sascore.load_model("guinier")).resolution.q_calc, float)
            inv_ = float(np.exp(rng.uniform(math.log(30*qc_[0]), math.log(qc_[-1]/30))))
            if rep == 7:
                inv_ = float(qc_[-1]/30)*float(rng.uniform(0.5, 1.0))     # a small structure: large q matter
            if rep == 6:
                inv_ = float(30*qc_[0])*float(rng.uniform(1.0, 3.0))      # a large structure: xi << s at the short lengths
            # (the acceptance of the data object's wavelength cuts q at 2 pi/lambda: keep 1/s a factor 6 inside it as well)
            inv_ = min(inv_, (2*math.pi/2.0)/6.0)
            rg = math.sqrt(1.5)/inv_
            rec.bucket("via:Gxi:long-log-grid")
        pars = {"rg": rg, "scale": float(rng.uniform(0.5, 2.0))}
        # guinier: I = scale exp(-q^2 rg^2/3) -> s^2 = 2 rg^2/3
        s = math.sqrt(2.0/3.0)*rg
        exact = exact_pair(xi, [pars["scale"]], [s])
        G = direct_model.Gxi("guinier", xi, background=0.0, **pars)
        tol = 1e-3*float(np.max(np.abs(exact)))
        rec.check("gaussian_hankel_pair", bool(np.all(np.abs(G - exact) <= tol)),
                  {"via": "Gxi", "rg": rg, "got": G[:5], "exact": exact[:5]})
        Gb = direct_model.Gxi("guinier", xi, background=float(rng.uniform(0.1, 5.0)), **pars)
        rec.check("background_does_not_leak", bool(np.array_equal(G, Gb)),
                  {"via": "Gxi", "no_background": G[:4], "with_background": Gb[:4]})
        rec.bucket("via:Gxi")
        data = sdata.empty_sesans(xi, wavelength=float(rng.uniform(4, 10)) if rep < 6 else 2.0)
        calc = direct_model.DirectModel(data, sascore.load_model("guinier"))
        G2 = calc(background=0.0, **pars)
        rec.check("gaussian_hankel_pair", bool(np.all(np.abs(G2 - exact) <= tol)),
                  {"via": "DirectModel", "rg": rg, "got": G2[:5], "exact": exact[:5]})
        if rep >= 5:
            # the same data with the model built in single precision: I(q) is single precision, the transform of it is not
            calc32 = direct_model.DirectModel(data, sascore.load_model("guinier", dtype="single"))
            G32 = np.asarray(calc32(background=0.0, **pars), float)
            rec.check("gaussian_hankel_pair", bool(np.all(np.abs(G32 - exact) <= 2e-3*float(np.max(np.abs(exact))))),
                      {"via": "DirectModel with a single-precision model", "rg": rg, "got": G32[:5], "exact": exact[:5],
                       "worst_over_tol": float(np.max(np.abs(G32 - exact))/(2e-3*float(np.max(np.abs(exact)))))})
            rec.bucket("via:DirectModel:single-precision-model")
            if rep == 6:
                # xi << s: G(xi) - G(0) is a small difference of two large sums; each point is still reproduced to the
                # quadrature accuracy relative to its own value, in double and with a single-precision model alike
                for lab_, g_ in (("double-precision model", np.asarray(G2, float)), ("single-precision model", G32)):
                    rel_ = np.abs(g_ - exact)/np.abs(exact)
                    okr = bool(np.all(rel_ <= 3e-3))
                    rec.check("gaussian_hankel_pair", okr,
                              None if okr else {"via": "DirectModel, " + lab_ + ", per-point relative error, xi << s", "rg": rg,
                                                "xi_first": xi[:4], "relative_error_first": rel_[:4], "worst": float(np.max(rel_))})
                rec.bucket("xi<<s:per-point-relative")
        G3 = calc(background=2.5, **pars)
        rec.check("background_does_not_leak", bool(np.array_equal(G2, G3)), {"via": "DirectModel"})
        # linear in scale
        G4 = calc(background=0.0, rg=rg, scale=3.0*pars["scale"])
        # G - G(0) cancels, so rounding is relative to G(0) ~ max|G|
        g0_ = pars["scale"]/(2*math.pi*s*s)          # G(0) of this Gaussian: the size of the two sums whose difference is returned
        rec.check("linear", core.close(G4, 3.0*G2, 1e-12, 1e-11*3*g0_),
                  {"via": "DirectModel scale x3", "max_abs_diff": float(np.max(np.abs(G4 - 3*G2)))})
        # a later call that leaves out what an earlier call on the same calculator set
        G6 = np.asarray(calc(rg=rg), float)
        exact6 = exact_pair(xi, [1.0], [s])
        rec.check("gaussian_hankel_pair", bool(np.all(np.abs(G6 - exact6) <= 1e-3*float(np.max(np.abs(exact6))))),
                  {"via": "DirectModel called with rg only after calls that set scale and background", "rg": rg,
                   "got": G6[:5], "exact_for_default_scale": exact6[:5]})
        rec.bucket("via:DirectModel")
        rec.set_shape(("direct", rep), True)
        # the spin-echo lengths of the same data object edited in place (same array object, same length), then a
        # new calculator on it: the values belong to the current lengths
        data.x *= 1.37
        if getattr(data, "lam", None) is None and hasattr(data, "source"):
            pass
        xi_new = np.asarray(data.x, float).copy()
        G5 = np.asarray(direct_model.DirectModel(data, sascore.load_model("guinier"))(background=0.0, **pars), float)
        exact5 = exact_pair(xi_new, [pars["scale"]], [s])
        rec.check("gaussian_hankel_pair", bool(np.all(np.abs(G5 - exact5) <= 1e-3*float(np.max(np.abs(exact5))))),
                  {"via": "DirectModel on the same data object after data.x was scaled in place", "rg": rg,
                   "got": G5[:5], "exact": exact5[:5], "exact_at_old_lengths": exact[:5]})
        rec.bucket("via:DirectModel:data-edited-in-place")
        # --- acceptance set on the data object (angle theta_max), constant and time-of-flight style wavelengths
        from scipy.integrate import quad
        from scipy.special import j0
        tof = (rep % 2 == 1)
        n = len(xi)
        lam0 = float(rng.choice([2.5, 3.5, 9.0, 11.0]))
        lamv = np.linspace(0.6*lam0, lam0, n) if tof else np.full(n, lam0)
        frac = float(rng.uniform(0.5, 1.1))
        sin_t = frac/s*lam0/(2*math.pi)              # documented cut at the longest wavelength: q = frac/s
        if sin_t < 0.9:
            theta_max = math.asin(sin_t)
            d2 = sdata.empty_sesans(xi, wavelength=lamv, zacceptance=(theta_max, "radians"))
            calc2 = direct_model.DirectModel(d2, sascore.load_model("guinier"))
            Gm = np.asarray(calc2(background=0.0, **pars), float)
            qc = np.asarray(calc2.resolution.q_calc, float)
            fI = lambda t: pars["scale"]*math.exp(-t*t*s*s/2)
            G0 = pars["scale"]*(math.exp(-qc[0]**2*s*s/2) - math.exp(-qc[-1]**2*s*s/2))/(s*s)/(2*math.pi)

            def masked(cuts, idx):
                out = []
                for j in idx:
                    hi_q = min(float(cuts[j]), float(qc[-1]))
                    edges = np.linspace(qc[0], hi_q, max(8, int(4*xi[j]*hi_q)))
                    v = sum(quad(lambda t: float(j0(t*xi[j]))*fI(t)*t, a_, b_, epsabs=0, epsrel=1e-10)[0]
                            for a_, b_ in zip(edges[:-1], edges[1:]))/(2*math.pi)
                    out.append(v - G0)
                return np.array(out)
            idx = sorted({0, n//3, n//2, n - 1})
            documented = masked(2*math.pi/lamv*math.sin(theta_max), idx)
            tolm = 2e-3*max(float(np.max(np.abs(documented))), 1e-3*G0)
            okd = bool(np.all(np.abs(Gm[idx] - documented) <= tolm))
            key = None
            if not okd:
                # listed finding: DirectModel hands 2 pi/max(lam) sin(theta_max) (a q value) to a mask that compares
                # it with the scattering angle; classified only if the result equals that cut exactly as coded
                zq = 2*math.pi/float(np.max(lamv))*math.sin(theta_max)
                coded = masked(2*math.pi/lamv*math.sin(min(zq, math.pi/2)), idx)
                if bool(np.all(np.abs(Gm[idx] - coded) <= tolm)):
                    key = "C19/directmodel-passes-q-where-mask-expects-angle"
            rec.check("acceptance_masks_integral", okd,
                      None if okd else {"via": "DirectModel", "wavelengths": [float(lamv[0]), float(lamv[-1])], "tof": tof,
                                        "theta_max": theta_max, "rg": rg, "got": Gm[idx], "documented_mask": documented,
                                        "xi": xi[idx]}, key=key)
            rec.bucket("acceptance:on-data-tof" if tof else "acceptance:on-data-mono")


def run_threads(case, rec):
    """The helper called from several threads at once (a parameter scan mapped over a thread pool) with the same model and
    the same spin-echo lengths: every call returns the Hankel pair of its own parameters."""
    from concurrent.futures import ThreadPoolExecutor
    from sasmodels import direct_model
    rng = core.rng_for(case["seed"], PROP, "threads")
    xi = np.logspace(2.0, 4.0, 30)
    sets = []
    for _ in range(48):
        rg = float(math.sqrt(1.5)/10**rng.uniform(-3.6, -2.6))
        sets.append({"rg": rg, "scale": float(rng.uniform(0.5, 2.0))})
    direct_model.Gxi("guinier", xi, background=0.0, **sets[0])          # (library built before the threads start)

    def one(p_):
        return np.asarray(direct_model.Gxi("guinier", xi, background=0.0, **p_), float)
    bad = []
    rounds = 0
    for rounds in range(1, 4):
        with ThreadPoolExecutor(max_workers=8) as pool:
            outs = list(pool.map(one, sets))
        for p_, g_ in zip(sets, outs):
            s_ = math.sqrt(2.0/3.0)*p_["rg"]
            ex_ = exact_pair(xi, [p_["scale"]], [s_])
            if not np.all(np.abs(g_ - ex_) <= 1e-3*float(np.max(np.abs(ex_)))):
                bad.append({"pars": p_, "got": g_[:4], "exact": ex_[:4]})
        if bad:
            break
    rec.check("gaussian_hankel_pair", not bad,
              {"via": "Gxi from 8 threads, same model and grid, 48 parameter sets", "rounds": rounds, "wrong": len(bad), "first": bad[:2]})
    rec.bucket("via:Gxi:threads")
    rec.set_shape(("threads",), True)


def run_fault(case, rec):
    """An allocation failure while the transform is being built (memory pressure on long grids): either the failure reaches
    the caller, or whatever is returned is the transform."""
    from sasmodels import sesans, direct_model
    rng = core.rng_for(case["seed"], PROP, "fault", case["k"])
    real = np.outer
    for target in (1, 2):
        for via in ("SesansTransform", "Gxi"):
            xi = np.linspace(200.0, 8000.0, int(rng.integers(40, 90)))
            rg = float(math.sqrt(1.5)/10**rng.uniform(-3.8, -2.9))
            s_ = math.sqrt(2.0/3.0)*rg
            exact = exact_pair(xi, [1.0], [s_])
            count = [0]

            def faulty(a, b, *args, **kw):
                if np.size(a)*np.size(b) > 10000:
                    count[0] += 1
                    if count[0] == target:
                        raise MemoryError("injected: allocation of the %d x %d matrix failed" % (np.size(a), np.size(b)))
                return real(a, b, *args, **kw)
            np.outer = faulty
            real_j0 = sesans.j0

            def faulty_j0(x, *args, **kw):
                if np.size(x) > 10000:
                    count[0] += 2
                    if count[0] == 2:           # the first large Bessel evaluation fails, once
                        raise MemoryError("injected: the Bessel step was cut short")
                return real_j0(x, *args, **kw)
            if target == 2:
                sesans.j0 = faulty_j0          # (the second fault point is the Bessel evaluation instead of the allocation)
                np.outer = real
            outcome, got, T = None, None, None
            try:
                if via == "SesansTransform":
                    T = sesans.SesansTransform(xi, xi, np.full(len(xi), 6.0), 2*math.pi/6.0, 1e7)
                    qc = np.asarray(T.q_calc)
                    got = np.asarray(T.apply(np.exp(-qc*qc*s_*s_/2)), float)
                else:
                    got = np.asarray(direct_model.Gxi("guinier", xi, rg=rg, scale=1.0, background=0.0), float)
                outcome = "returned"
            except MemoryError:
                outcome = "MemoryError reached the caller"
                if T is not None:
                    # the object exists and its first evaluation was cut short: the same statement again (no fault now)
                    try:
                        qc = np.asarray(T.q_calc)
                        got = np.asarray(T.apply(np.exp(-qc*qc*s_*s_/2)), float)
                        outcome = "returned"
                        rec.bucket("fault:first-evaluation-cut-short-then-repeated")
                    except MemoryError:
                        pass
            finally:
                np.outer = real
                sesans.j0 = real_j0
            ok = outcome != "returned" or bool(np.all(np.abs(got - exact) <= 1e-3*float(np.max(np.abs(exact)))))
            rec.check("gaussian_hankel_pair", ok,
                      None if ok else {"via": via + " with the %d. large allocation failing once" % target, "injected": count[0] >= target,
                                       "got": got[:5], "exact": exact[:5]})
            rec.bucket("fault:allocation-fails:" + ("raised" if outcome != "returned" else "returned"))
            rec.count("faults_injected", int(count[0] >= target))
    rec.set_shape(("fault", case["k"]), True)


def run_case(case, rec):
    if case.get("kind") == "fault":
        return run_fault(case, rec)
    if case.get("kind") == "threads":
        return run_threads(case, rec)
    if case["kind"] == "direct":
        run_direct(case, rec)
    else:
        run_transform(case, rec)


LEVEL_TEXT = ("The real SesansTransform / Gxi / DirectModel are applied to Gaussians with closed-form Hankel pairs on "
              "generated spin-echo grids, wavelengths and acceptance cuts, plus linearity, single-point consistency, "
              "masked-integral and background-leak monitors.  Exploration over generated inputs.")
LEVEL_NOTE = "Tolerance 1e-3 of the largest exact value (stated quadrature accuracy); Gaussians kept a factor 30 inside the q range."
TECHNIQUE = "reference-model monitor with analytic Hankel pairs + adaptive quadrature for masked integrals + linearity probes"
