"""
C12 - 1-D intensity is the orientational average of the model's 2-D intensity.

Raw single-particle functions of the model's own C text: the 1-D path
(Iq / Fq) is compared with a Gauss-Legendre spherical average of the 2-D
particle-frame function (Iqac / Iqabc).  Only points where both the reference
quadrature and the model's internal quadrature have converged decide.
"""
from __future__ import annotations

import copy
import math
import os

import numpy as np

from rtm import core, sas, native

PROP = "C12"
LEVEL = "exploration"
RULE = ("21 oriented models x shape parameters from each model's random generator (paracrystals with broad peaks) x q with "
        "q*size in [0.1, 20]; a point decides only if the reference average converged (N vs 2N, 1e-6) and the model's own "
        "quadrature converged (native vs a 150/400-point Gauss rule, 1e-2); tolerance 10x the larger convergence error + "
        "1e-7.  Distinct: hash of (model, rounded log q*size, parameter-set index).  Non-trivial: the 2-D function "
        "varies by more than 1% over directions at that q (the average is not trivial).")
ASSUMPTIONS = ["raw library functions are the model's own 1-D and 2-D functions",
               "each model is held to its own integration accuracy (observed convergence of both sides)"]
REQUIRED_MONITORS = ["1d_is_spherical_average", "api_1d_is_average_of_2d", "integration_size_independent_where_resolved"]
REQUIRED_BUCKETS = {"quick": ["special:two-lengths-equal", "special:one-length-comparable-to-another", "api:q-not-in-increasing-order", "api:one-point-jitter-distributions", "finer_rule_compared_with_average", "api:size-mesh>100", "sym:ac", "sym:abc", "qsize<1", "qsize>5", "deciding"]}
REQUIRED_BUCKETS["thorough"] = REQUIRED_BUCKETS["quick"]

_hi = {}


def hi_raw(i, n=None):
    """The same model with its Gauss rule replaced by another one (written to scratch, not to the repo):
    by default a finer one; *n* picks the size."""
    key = (i.id, n)
    if key in _hi:
        return _hi[key]
    r = None
    if i.source and any(os.path.basename(s).startswith("gauss") for s in i.source):
        from sasmodels.gengauss import gengauss
        if n is None:
            n = 150 if any("gauss76" in s or "gauss20" in s for s in i.source) else 400
        d = os.path.join(os.environ.get("RTM_SCRATCH", "/tmp"), "gauss")
        os.makedirs(d, exist_ok=True)
        path = os.path.join(d, "gauss%d.c" % n)
        if not os.path.exists(path):
            gengauss(n, path)
        i2 = copy.copy(i)
        # every Gauss table of the model becomes the new one (GAUSS_N/Z/W are defined by the last include)
        i2.source = [path if os.path.basename(s).startswith("gauss") else s for s in i.source]
        seen, src = set(), []
        for s in i2.source:
            if s not in seen:
                src.append(s)
                seen.add(s)
        i2.source = src
        try:
            r = native.RawLib(i2, os.path.join(os.environ.get("RTM_SCRATCH", "/tmp"), "rawlib-g%d" % n))
        except Exception:
            r = None
    _hi[key] = r
    return r


def odd_size(i):
    """An odd rule size next to the model's own (the shipped tables are all even)."""
    names = [os.path.basename(s) for s in (i.source or [])]
    if any(n_.startswith("gauss150") for n_ in names):
        return 149
    if any(n_.startswith("gauss76") for n_ in names):
        return 75
    if any(n_.startswith("gauss20") for n_ in names):
        return 21
    return None


def gen_cases(tier, seed):
    n = 3 if tier == "quick" else 40
    cases = []
    for m in sas.oriented_models():
        for k in range(n):
            cases.append({"id": "%s/%03d" % (m, k), "model": m, "k": k, "seed": seed, "nq": 5 if tier == "quick" else 8,
                          "group": "%s/%d" % (m, k)})
        # special shapes: two lengths exactly equal (a particle with an extra symmetry), and one length a large
        # fraction of / larger than another (walls as thick as the particle): inside the declared limits like any other
        lens = [p.name for p in sas.info(m).parameters.kernel_parameters
                if p.type == "volume" and p.length == 1 and p.units == "Ang"]
        pairs = [(a, b) for ia, a in enumerate(lens) for b in lens[ia + 1:]]
        ordered = [(a, b) for a in lens for b in lens if a != b]
        cap = 6 if tier == "quick" else 1000
        for j, (a, b) in enumerate((pairs[seed % max(len(pairs), 1):] + pairs[:seed % max(len(pairs), 1)])[:cap]):
            cases.append({"id": "%s/eq-%s-%s" % (m, a, b), "model": m, "k": 100 + j, "seed": seed, "nq": 3, "group": "%s/e%d" % (m, j),
                          "special": ["equal", a, b]})
        for j, (a, b) in enumerate((ordered[seed % max(len(ordered), 1):] + ordered[:seed % max(len(ordered), 1)])[:cap]):
            cases.append({"id": "%s/ratio-%s-%s" % (m, a, b), "model": m, "k": 200 + j, "seed": seed, "nq": 3, "group": "%s/r%d" % (m, j),
                          "special": ["ratio", a, b]})
    return cases


_gl = {}


def gl(n):
    if n not in _gl:
        _gl[n] = np.polynomial.legendre.leggauss(n)
    return _gl[n]


def sph_avg(r, i, v, q, n):
    if i.parameters.is_asymmetric:
        x, w = gl(n)
        nb = n
        betas = (np.arange(nb) + 0.5)*(2*math.pi/nb)
        tot = 0.0
        for u, wu in zip(x, w):
            s = math.sqrt(max(0.0, 1 - u*u))
            acc = 0.0
            for b in betas:
                acc += r.Iqabc(q*s*math.cos(b), q*s*math.sin(b), q*u, v)
            tot += wu*acc/nb
        return tot/2.0
    x, w = gl(n)
    tot = 0.0
    for u, wu in zip(x, w):
        tot += wu*r.Iqac(q*math.sqrt(max(0.0, 1 - u*u)), q*u, v)
    return tot/2.0


def run_case(case, rec):
    from sasmodels import direct_model
    name, k = case["model"], case["k"]
    i = sas.info(name)
    rng = core.rng_for(case["seed"], PROP, name, k)
    pars = sas.base_pars(i, case["seed"]*29 + k, style="default" if k == 0 else "random")
    if "paracrystal" in name:
        pars["d_factor"] = float(rng.uniform(0.25, 0.6))
        pars["dnn"] = float(rng.uniform(1.5, 3.0))*2*pars.get("radius", 40.0)
    # count-like parameters (n_stacking) are real-valued in the interface: every third case uses a fractional value
    if k % 3 == 2:
        for p_ in i.parameters.kernel_parameters:
            if p_.name.startswith("n_") and p_.length == 1 and p_.name in pars:
                pars[p_.name] = float(int(pars[p_.name])) + float(rng.uniform(0.5, 0.99))
                rec.bucket("fractional_count_parameter")
    sp = case.get("special")
    if sp:
        kind_, a_, b_ = sp
        lo_b, hi_b = i.parameters[b_].limits
        lo_a, hi_a = i.parameters[a_].limits
        if kind_ == "equal" and lo_b <= pars[a_] <= hi_b:
            pars[b_] = pars[a_]
            rec.bucket("special:two-lengths-equal")
        elif kind_ == "ratio":
            val = float(rng.choice([0.55, 0.7, 0.9, 1.15]))*pars[b_]
            if lo_a <= val <= hi_a:
                pars[a_] = val
                rec.bucket("special:one-length-comparable-to-another")
    r = sas.raw(i)
    v = r.flat({kk: pars[kk] for kk in pars if kk not in ("scale", "background")})
    hi = hi_raw(i)
    size = sas.size_scale(i, pars)
    if "paracrystal" in name:
        size = pars["dnn"]
    asym = i.parameters.is_asymmetric
    rec.bucket("sym:abc" if asym else "sym:ac")
    if "paracrystal" in name:
        # the lattice factor is only resolved by the quadratures away from the forward direction
        qs = np.exp(rng.uniform(math.log(4.0/size), math.log(20.0/size), case["nq"]))
    else:
        qs = np.exp(rng.uniform(math.log(0.1/size), math.log(20.0/size), case["nq"]))
    N = (64 if "paracrystal" in name else 48) if asym else 128
    decided = 0
    decided_at = []
    # bound the cost: the model's own 1-D quadrature (and its finer re-run) dominates for doubly integrated models
    per = sas.eval_cost(i, "1d")
    budget = 6.0
    nq_max = max(2, int(budget/(per*(1 + 6.0))))
    qs = qs[:nq_max]
    import time as _time
    hi_budget = [12.0]
    for q in qs:
        if hi_budget[0] <= 0:
            rec.count("skipped_cost_of_finer_model_quadrature")
            continue
        one = r.Iq(q, v)
        a1 = sph_avg(r, i, v, q, N)
        a2 = sph_avg(r, i, v, q, 2*N)
        ref_err = abs(a1 - a2)
        if ref_err <= 1e-6*abs(a2):
            # a third, non-nested rule guards against accidental agreement on sharply peaked integrands
            a3 = sph_avg(r, i, v, q, int(2.6*N) + 1)
            ref_err = max(ref_err, abs(a3 - a2))
        t0 = _time.perf_counter()
        one_hi = hi.Iq(q, hi.flat({kk: pars[kk] for kk in pars if kk not in ("scale", "background")})) if hi else one
        hi_budget[0] -= _time.perf_counter() - t0
        mod_err = abs(one - one_hi)
        # where the shipped (even) rule and the finer one agree to 1e-10 the integrand is resolved, and a rule of
        # the neighbouring odd size, which users select through generate.set_integration_size, must agree too
        if hi and np.isfinite(one) and one != 0 and mod_err <= 1e-10*abs(one) and odd_size(i):
            odd = hi_raw(i, odd_size(i))
            if odd is not None:
                one_odd = odd.Iq(q, odd.flat({kk: pars[kk] for kk in pars if kk not in ("scale", "background")}))
                okodd = abs(one_odd - one) <= 1e-7*abs(one)
                rec.check("integration_size_independent_where_resolved", okodd,
                          None if okodd else {"model": name, "pars": pars, "q": float(q), "shipped_rule": one,
                                              "finer_rule": one_hi, "odd_rule_size": odd_size(i), "odd_rule": one_odd,
                                              "rel_err": abs(one_odd - one)/abs(one)})
                rec.bucket("odd_rule_compared")
        # where the shipped rule reproduces the (converged) spherical average of the 2-D function, the integrand is resolved,
        # and the finer rule selected through generate.set_integration_size reproduces it too
        def _same_2d():
            # (models that also use the Gauss tables inside their 2-D function - superball's shape integral - define
            # another 2-D function under another rule; the comparison applies where the 2-D function is the same)
            vh = hi.flat({kk: pars[kk] for kk in pars if kk not in ("scale", "background")})
            for dx_, dy_, dz_ in ((0.6, 0.0, 0.8), (0.0, 1.0, 0.0), (0.36, 0.48, 0.8)):
                u_ = r.Iqabc(q*dx_, q*dy_, q*dz_, v) if asym else r.Iqac(q*math.hypot(dx_, dy_), q*dz_, v)
                w_ = hi.Iqabc(q*dx_, q*dy_, q*dz_, vh) if asym else hi.Iqac(q*math.hypot(dx_, dy_), q*dz_, vh)
                if not (abs(u_ - w_) <= 1e-12*abs(u_)):
                    return False
            return True
        if hi and np.isfinite(one) and np.isfinite(a2) and a2 != 0 and ref_err <= 1e-8*abs(a2) and abs(one - a2) <= 1e-7*abs(a2) \
                and _same_2d():
            okhi = abs(one_hi - a2) <= 1e-5*abs(a2)
            rec.check("integration_size_independent_where_resolved", okhi,
                      None if okhi else {"model": name, "pars": pars, "q": float(q), "shipped_rule": one, "finer_rule": one_hi,
                                         "spherical_average_of_2d": a2, "rel_err_of_finer_rule": abs(one_hi - a2)/abs(a2)})
            rec.bucket("finer_rule_compared_with_average")
        qsz = q*size
        rec.bucket("qsize<1" if qsz < 1 else "qsize>5" if qsz > 5 else "qsize:1..5")
        if not (np.isfinite(one) and np.isfinite(a2)) or a2 == 0:
            rec.count("skipped_nonfinite")
            continue
        if ref_err > 1e-6*abs(a2) or mod_err > 1e-2*abs(a2):
            rec.count("skipped_not_converged")
            continue
        tol = 10*max(ref_err, mod_err) + 1e-7*abs(a2)
        ok = abs(one - a2) <= tol
        decided += 1
        decided_at.append((float(q), tol/abs(a2)))
        rec.bucket("deciding")
        key = None
        if name in ("core_shell_bicelle_elliptical", "core_shell_bicelle_elliptical_belt_rough"):
            key = "C12/%s/rim-of-1d-path-is-not-the-ellipse-of-2d-path" % name
        rec.check("1d_is_spherical_average", ok,
                  None if ok else {"model": name, "pars": pars, "q": float(q), "q_size": qsz, "one_d": one, "average_2d": a2,
                                   "reference_convergence": ref_err, "model_convergence": mod_err, "tolerance": tol,
                                   "rel_err": abs(one - a2)/abs(a2)}, key=key)
        # is the average non-trivial? spread of the 2-D function over a few directions
        vals = [r.Iqabc(q*0.6, q*0.0, q*0.8, v) if asym else r.Iqac(q*0.6, q*0.8, v),
                r.Iqabc(0.0, q, 0.0, v) if asym else r.Iqac(q, 0.0, v),
                r.Iqabc(0.0, 0.0, q, v) if asym else r.Iqac(0.0, q, v)]
        spread = (max(vals) - min(vals))/(abs(a2) + 1e-300)
        rec.set_shape((name, k, round(math.log10(qsz), 1)), nontrivial=spread > 0.01)
    rec.count("deciding:" + name, decided)
    if decided == 0:
        rec.count("cases_without_deciding_point")
    # public API: 1-D call_kernel vs the sin-weighted average of 2-D call_kernel values (axially symmetric models)
    # at a q where both quadratures were seen to converge (the statement's restriction), with the same tolerance
    if not asym and decided and k % 2 == 0:
        q, rtol = decided_at[0]
        model = sas.build(name)
        x, w = gl(256)
        al = np.arccos(x)                # angle between q and the c axis
        qx, qy = q*np.cos(al), q*np.sin(al)        # theta = 90, phi = 0 puts the c axis along x
        pdx = {}
        if k % 4 == 0 and sas.eval_cost(i, "1d") < 3e-4:
            # the same statement for a population: a size mesh of more than 100 points on both sides (the average
            # over directions commutes with the average over sizes, the volume normalisation is common)
            sizes = [p_ for p_ in sas.usable_pd(i, pars, "1d") if p_.type == "volume" and not p_.name.startswith("n_")]
            if len(sizes) >= 2:
                for p_, n_ in zip(sizes[:2], (11, 10)):
                    lo_, hi_ = p_.limits
                    room = min(abs(pars[p_.name] - lo_), abs(hi_ - pars[p_.name]))/abs(pars[p_.name])
                    w_ = min(0.04, 0.9*room/2.0)
                    if w_ > 0:
                        pdx.update({p_.name + "_pd": w_, p_.name + "_pd_n": n_, p_.name + "_pd_nsigma": 2.0,
                                    p_.name + "_pd_type": "gaussian"})
                if len([kk for kk in pdx if kk.endswith("_pd_n")]) == 2:
                    rec.bucket("api:size-mesh>100")
                else:
                    pdx = {}
        p2 = dict(pars, theta=90.0, phi=0.0, scale=1.0, background=0.0, **pdx)
        if k % 4 == 2:
            # jitter distributions of a single point (npts 1 with a width left over from earlier settings): zero jitter
            p2.update(theta_pd=float(rng.uniform(5, 30)), theta_pd_n=1, phi_pd=float(rng.uniform(5, 30)), phi_pd_n=1)
            rec.bucket("api:one-point-jitter-distributions")
        I2 = np.asarray(direct_model.call_kernel(model.make_kernel([qx, qy]), p2), float)
        avg = float(np.sum(w*I2)/2.0)
        I1 = float(direct_model.call_kernel(model.make_kernel([np.array([q])]), dict(pars, scale=1.0, background=0.0, **pdx))[0])
        # the 1-D value through a data object whose q values are not listed in increasing order (two detector banks, a
        # descending scan): value k belongs to q[k]
        from sasmodels import data as sdata
        qlist = np.array([q*1.31, q*1.07, q*0.62, q])
        dmv = np.asarray(direct_model.DirectModel(sdata.empty_data1D(qlist), model)(**dict(pars, scale=1.0, background=0.0, **pdx)), float)
        okd = len(dmv) == 4 and abs(dmv[3] - I1) <= 1e-6*abs(I1)        # (DirectModel's default cutoff 1e-5)
        rec.check("api_1d_is_average_of_2d", okd,
                  {"model": name, "q_listed": qlist, "note": "DirectModel on 1-D data listed in non-increasing order: the last element is the 1-D value at the last q listed",
                   "returned": dmv, "one_d_at_last_q": I1})
        rec.bucket("api:q-not-in-increasing-order")
        if pdx:
            rtol = max(rtol, 1e-4)       # 4 % wide size distributions: the converged quadratures stay converged
        one_hi = None
        tol = max(rtol, 1e-6)*abs(avg)
        rec.check("api_1d_is_average_of_2d", abs(I1 - avg) <= max(tol, 0) if np.isfinite(avg) else True,
                  {"model": name, "pars": pars, "q": q, "one_d": I1, "average_of_2d": avg, "rel_err": abs(I1 - avg)/abs(avg),
                   "rtol": max(rtol, 1e-6)},
                  key="C12/%s/rim-of-1d-path-is-not-the-ellipse-of-2d-path" % name
                  if name.startswith("core_shell_bicelle_elliptical") else None)
    if k == 0:
        rec.observe(model=name, q=qs, decided=decided)


def coverage_extra(results, coverage):
    per = {k[9:]: v for k, v in coverage["counters"].items() if k.startswith("deciding:")}
    none = sorted(m for m, n in per.items() if n == 0)
    if none:
        coverage["inconclusive_reasons"].append("no deciding point for: " + ", ".join(none))
    return {"deciding_points_per_model": per, "models_without_deciding_point": none}


def classify(case, v):
    return v.get("key")


LEVEL_TEXT = ("For every oriented model the raw 1-D function is compared with a Gauss-Legendre spherical average of the raw "
              "2-D particle-frame function at generated shape parameters and q; only doubly converged points decide and "
              "each model is held to its own integration accuracy; a public-API cross-check ties it to call_kernel.")
LEVEL_NOTE = "Trusts the raw-library wrapper; non-converged points are counted as skipped, never as held."
TECHNIQUE = "reference-model monitor (independent spherical quadrature with observed convergence gating)"
