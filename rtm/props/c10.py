"""
C10 - every calling interface yields the same theory; unknown parameters are refused.

The same request is issued through five interfaces of the real package and the
returned vectors are compared pairwise; data masks / q limits / NaN data must
select exactly the reference index; unknown names must raise everywhere.
"""
from __future__ import annotations

import math
import os
import sys

import numpy as np

from rtm import core, sas

PROP = "C10"
LEVEL = "exploration"
RULE = ("78 builtin models (multiplicity models at several multiplicities, P@S through MultiplicationModel) x random "
        "in-limit parameter values and dispersity settings written explicitly in both naming schemes (name_pd_n vs "
        "name.npts) x cutoff x 1-D/2-D x five interfaces (kernel, DirectModel, keyword functions, SasviewModel incl. "
        "array distributions, bumps Experiment with a stub bumps.parameter); data objects with masks, q limits, NaN "
        "data and dx/dxl/dxw; misspelt / foreign / suffix-on-non-dispersible names.  Distinct: hash of (model, dim, "
        "dispersed parameters, interfaces used).  Non-trivial: at least three interfaces returned a vector.")
ASSUMPTIONS = ["bumps is replaced by a minimal stub of bumps.parameter (Parameter.default boxes a value)",
               "2-D data for DirectModel/bumps carry no resolution columns (dqx_data = None) so that no smearing is applied"]
REQUIRED_MONITORS = ["interfaces_agree", "selection_matches_reference_index", "unknown_name_refused"]
REQUIRED_BUCKETS = {"quick": ["bumps:after-simulate-data", "bumps:attributes-rebound", "bumps:distribution-type-rebound", "value-exactly-on-declared-limit", "bumps:resolution-replaced", "select:infinite-data-values", "plugin-revised:first-through-sasview", "plugin-revised:first-through-core", "select:limits-equal-to-pixel-radii", "iface:kernel", "iface:DirectModel", "iface:keyword", "iface:sasview", "iface:bumps",
                              "dim:1d", "dim:2d", "multiplicity", "product", "array_distribution", "select:mask",
                              "select:qlimits", "select:nan", "refuse:misspelt", "refuse:foreign", "refuse:pd_suffix", "refuse:bad_attribute",
                              "dispersity-on-vector-element:1d", "refuse:repeated-on-one-object", "sasview:clone-edited",
                              "product:intermediates-after-setting-change", "keyword:Iqxy-with-two-widths",
                              "sasview:clone-unedited", "sasview:table-then-ordinary-distribution", "sasview:second-object-of-class"]}
REQUIRED_BUCKETS["thorough"] = REQUIRED_BUCKETS["quick"]

STUBS = os.path.join(core.VERIF, "rtm", "stubs")


def worker_init(tier, seed):
    if STUBS not in sys.path:
        sys.path.insert(0, STUBS)
    sas.install_poison()


def gen_cases(tier, seed):
    n = 2 if tier == "quick" else 25
    cases = []
    for m in sas.list_models():
        for k in range(n):
            cases.append({"id": "%s/%02d" % (m, k), "kind": "agree", "model": m, "k": k, "seed": seed, "group": m})
    for k, (P, S) in enumerate([("sphere", "hardsphere"), ("cylinder", "squarewell"), ("core_shell_sphere", "hayter_msa"),
                                ("vesicle", "stickyhardsphere")]):
        cases.append({"id": "product/%s@%s" % (P, S), "kind": "product", "P": P, "S": S, "k": k, "seed": seed, "group": "prod%d" % k})
    ns, nr = (12, 20) if tier == "quick" else (200, 300)
    for k in range(ns):
        cases.append({"id": "select/%03d" % k, "kind": "select", "k": k, "seed": seed, "group": "sel%d" % (k % 16)})
    for k in range(nr):
        cases.append({"id": "refuse/%03d" % k, "kind": "refuse", "k": k, "seed": seed, "group": "ref%d" % (k % 16)})
    for k in range(2 if tier == "quick" else 12):
        cases.append({"id": "plugin/%02d" % k, "kind": "plugin", "k": k, "seed": seed, "group": "plug%d" % k, "cost": 3})
    return cases


def request(i, rng, k, dim):
    pars = sas.base_pars(i, 1000 + k)
    cand = sas.usable_pd(i, pars, dim)
    rng.shuffle(cand)
    pd = {}
    npd = int(rng.integers(0, 3))
    # elements of vector parameters (per-shell thickness, ...) carry dispersity like any scalar: every other
    # request on a model that has them puts one first
    vec = [p for p in cand if p.type == "volume" and any(kp.length > 1 and p.name.rstrip("0123456789") == kp.id
                                                         for kp in i.parameters.kernel_parameters)]
    if vec and k % 2 == 0:
        cand = [vec[0]] + [p for p in cand if p is not vec[0]]
        npd = max(npd, 1)
    for p in cand[:npd]:
        if p.type == "orientation":
            spec = ("gaussian", int(rng.integers(2, 6)), float(rng.uniform(2, 20)), 2.0)
        else:
            lo, hi = p.limits
            v = pars[p.name]
            room = min(abs(v - lo), abs(hi - v))/abs(v)
            w = min(float(rng.uniform(0.05, 0.25)), 0.9*room/2.5)
            if w <= 0:
                continue
            spec = (["gaussian", "schulz", "lognormal", "uniform"][int(rng.integers(4))], int(rng.integers(2, 9)), w, 2.5)
        pd[p.name] = spec
    if (k + len(i.id)) % 3 == 1:
        # a value exactly on its declared limit (a shell or rim of thickness zero): inside the limits like any other
        onlim = [p for p in i.parameters.call_parameters if p.type == "volume" and p.limits[0] == 0 and p.name in pars
                 and p.name not in pd and any(t_ in p.name for t_ in ("thick", "rim", "shell", "face"))]
        if onlim:
            pars[onlim[int(rng.integers(len(onlim)))].name] = 0.0
            pd["__onlimit__"] = None
    return pars, pd


def underscore(pars, pd):
    out = dict(pars)
    for n, (t, npts, w, ns) in pd.items():
        out.update({n + "_pd": w, n + "_pd_n": npts, n + "_pd_nsigma": ns, n + "_pd_type": t})
    return out


def data_for(dim, q):
    from sasmodels import data as sdata
    if dim == "1d":
        return sdata.empty_data1D(q[0], resolution=0.0)
    d = sdata.Data2D(x=q[0], y=q[1], z=np.ones(len(q[0])), dz=np.ones(len(q[0])))
    d.dqx_data = d.dqy_data = None
    return d


def via_sasview(Model, pars, pd, q, cutoff, multiplicity=None, array_for=None, rows=None):
    from sasmodels import weights
    m = Model(multiplicity) if multiplicity is not None else Model()
    for kname, v in pars.items():
        if kname in m.params:
            m.setParam(kname, v)
    for n, (t, npts, w, ns) in pd.items():
        if n not in m.params:
            # an element of a vector parameter beyond the object's shell count (the shell count drawn on its lower limit):
            # the object does not have it, and it has no effect through the other interfaces either
            continue
        if array_for == n:
            disp = weights.ArrayDispersion()
            p = m._model_info.parameters[n]
            vals, wts = weights.get_weights(t, npts, w, ns, pars[n], p.limits, p.relative_pd)
            if rows == "most-probable-first":
                # a table lists its rows in any order: each value keeps the weight of its own row
                order = np.argsort(-np.asarray(wts), kind="mergesort")
                vals, wts = np.asarray(vals)[order], np.asarray(wts)[order]
            disp.set_weights(vals, wts)
            m.set_dispersion(n, disp)
        else:
            m.setParam(n + ".width", w)
            m.setParam(n + ".npts", npts)
            m.setParam(n + ".nsigmas", ns)
            m.setParam(n + ".type", t)
    m.cutoff = cutoff
    qq = q[0] if len(q) == 1 else [q[0], q[1]]
    return np.asarray(m.evalDistribution(qq), float), m


def run_agree(case, rec):
    from sasmodels import core as sascore, direct_model, sasview_model, bumps_model
    name, k = case["model"], case["k"]
    i = sas.info(name)
    rng = core.rng_for(case["seed"], PROP, name, k)
    dim = "2d" if k % 2 == 1 else "1d"
    pars, pd = request(i, rng, case["seed"]*19 + k, dim)
    if pd.pop("__onlimit__", 0) is None:
        rec.bucket("value-exactly-on-declared-limit")
    # (a shell count drawn on its lower limit leaves vector elements without a shell: no distribution is requested on those)
    for n_ in [n_ for n_ in pd if n_ not in sas.active_names(i, pars)]:
        del pd[n_]
    cutoff = [0.0, 0.0, 1e-4][k % 3]
    size = sas.size_scale(i, pars)
    if dim == "1d":
        q = [np.clip(np.exp(rng.uniform(math.log(0.05/size), math.log(6.0/size), 5)), 1e-6, 2.0)]
    else:
        qx, qy = sas.q_points_2d(i, pars, 5, rng)
        q = [qx, qy]
    up = underscore(pars, pd)
    control = [p.id for p in i.parameters.kernel_parameters if p.is_control]
    model = sas.build(name)
    res = {}
    kern = model.make_kernel(q)
    res["kernel"] = np.asarray(direct_model.call_kernel(kern, dict(up), cutoff=cutoff), float)
    res["DirectModel"] = np.asarray(direct_model.DirectModel(data_for(dim, q), model, cutoff=cutoff)(**up), float)
    # the keyword functions have no cutoff argument: they run at DirectModel's default (1e-5)
    if dim == "1d":
        kw = np.asarray(direct_model.Iq(name, q[0], **up), float)
    else:
        kw = np.asarray(direct_model.Iqxy(name, q[0], q[1], **up), float)
    kw_ref = np.asarray(direct_model.call_kernel(kern, dict(up), cutoff=1e-5), float)
    rec.bucket("iface:keyword")
    okk = core.close(kw, kw_ref, 1e-12, 0.0)
    rec.check("interfaces_agree", okk, None if okk else {"model": name, "dim": dim, "interface": "keyword (cutoff 1e-5)",
                                                        "pars": up, "kernel": kw_ref, "other": kw})
    if dim == "2d" and k % 2 == 1:
        from sasmodels import data as sdata
        dqx_ = np.abs(q[0])*0.08 + 0.002
        dqy_ = np.abs(q[1])*0.21 + 0.004                   # different widths along the two axes
        kwr = np.asarray(direct_model.Iqxy(name, q[0], q[1], dqx=dqx_, dqy=dqy_, **up), float)
        d2 = sdata.Data2D(x=q[0], y=q[1], z=np.ones(len(q[0])), dx=dqx_, dy=dqy_, dz=np.ones(len(q[0])))
        dmr = np.asarray(direct_model.DirectModel(d2, model)(**up), float)
        okr = core.close(kwr, dmr, 1e-12, 0.0)
        rec.check("interfaces_agree", okr, None if okr else {"model": name, "dim": dim, "pars": up,
                                                            "interface": "Iqxy(dqx, dqy) vs DirectModel on Data2D(dx, dy)",
                                                            "Iqxy": kwr, "DirectModel": dmr})
        # and the widths matter / are told apart: swapping them gives another answer for an anisotropic request
        dms = np.asarray(direct_model.DirectModel(
            sdata.Data2D(x=q[0], y=q[1], z=np.ones(len(q[0])), dx=dqy_, dy=dqx_, dz=np.ones(len(q[0]))), model)(**up), float)
        if not core.close(dms, dmr, 1e-6, 0.0):
            rec.bucket("keyword:resolution-widths-distinguishable")
        rec.bucket("keyword:Iqxy-with-two-widths")
    Model = sasview_model._make_standard_model(name)
    mult = int(pars[control[0]]) if control else None
    if control:
        rec.bucket("multiplicity")
    arr = sorted(pd)[0] if (pd and k % 2 == 0) else None
    if arr is not None and arr not in sas.active_names(i, pars):
        arr = None          # (an element beyond the shell count: the SasView object does not have it)
    rows = "most-probable-first" if (arr and (k//2 + len(name)) % 2 == 1) else None
    if arr:
        rec.bucket("array_distribution", "array_rows:" + (rows or "ascending"))
    spars = {kk: v for kk, v in pars.items() if kk not in control}
    res["sasview"], sv_obj = via_sasview(Model, spars, pd, q, cutoff, multiplicity=mult, array_for=arr, rows=rows)
    # a clone is its own object: changing the clone's dispersity settings leaves the original's theory alone
    qq0_ = q[0] if len(q) == 1 else [q[0], q[1]]
    if pd:
        # a clone carries every setting of the original (distribution type included)
        res["sasview clone, unedited"] = np.asarray(sv_obj.clone().evalDistribution(qq0_), float)
        rec.bucket("sasview:clone-unedited")
    if arr:
        # the tabulated distribution replaced by an ordinary one on the same object
        from sasmodels import weights as sasweights
        t_, n_pts, w_, ns_ = pd[arr]
        disp2 = sasweights.MODELS[t_]()
        sv_obj.set_dispersion(arr, disp2)
        # (other settings than the table was built from, so that a surviving table shows)
        w2_, n2_ = 0.6*w_, n_pts + 2
        sv_obj.setParam(arr + ".width", w2_)
        sv_obj.setParam(arr + ".npts", n2_)
        sv_obj.setParam(arr + ".nsigmas", ns_)
        got_t = np.asarray(sv_obj.evalDistribution(qq0_), float)
        up_t = dict(up, **{arr + "_pd": w2_, arr + "_pd_n": n2_})
        ref_t = np.asarray(direct_model.call_kernel(kern, up_t, cutoff=cutoff), float)
        okt = core.close(got_t, ref_t, 1e-12, 1e-14*float(np.nanmax(np.abs(ref_t)) if np.any(np.isfinite(ref_t)) else 1.0))
        rec.check("interfaces_agree", okt,
                  None if okt else {"model": name, "dim": dim, "interface": "sasview after a tabulated distribution on %s was replaced by %s" % (arr, t_),
                                    "kernel": ref_t, "other": got_t})
        # back to the request's own settings for the steps below
        sv_obj.setParam(arr + ".width", w_)
        sv_obj.setParam(arr + ".npts", n_pts)
        rec.bucket("sasview:table-then-ordinary-distribution")
    pdn = [n_ for n_ in pd if n_ != arr]
    if pdn:
        twin = sv_obj.clone()
        for n_ in pdn:
            twin.setParam(n_ + ".width", 2.0*pd[n_][2] + 0.01)
            twin.setParam(n_ + ".npts", pd[n_][1] + 3)
        qq_ = q[0] if len(q) == 1 else [q[0], q[1]]
        twin.evalDistribution(qq_)
        res["sasview original after its clone was edited"] = np.asarray(sv_obj.evalDistribution(qq_), float)
        rec.bucket("sasview:clone-edited")
    if pd:
        fresh_obj = Model(mult) if mult is not None else Model()
        for kname, v in spars.items():
            if kname in fresh_obj.params:
                fresh_obj.setParam(kname, v)
        fresh_obj.cutoff = cutoff
        mono_ref = np.asarray(direct_model.call_kernel(kern, dict(pars), cutoff=cutoff), float)
        other = np.asarray(fresh_obj.evalDistribution(qq0_), float)
        okm = core.close(other, mono_ref, 1e-12, 1e-14*float(np.nanmax(np.abs(mono_ref)) if np.any(np.isfinite(mono_ref)) else 1.0))
        rec.check("interfaces_agree", okm,
                  None if okm else {"model": name, "dim": dim, "interface": "second SasView object of the same class, no dispersity set on it",
                                    "kernel_monodisperse": mono_ref, "other": other, "first_object_dispersity": pd})
        rec.bucket("sasview:second-object-of-class")
    bm = bumps_model.Model(model, **up)
    ex_ = bumps_model.Experiment(data_for(dim, q), bm, cutoff=cutoff)
    res["bumps"] = np.array(ex_.theory(), float)
    if k % 3 == 1:
        # a model object whose attributes are rebound after construction (tying one model's parameter to another's,
        # choosing another distribution type): the experiment evaluates what the model object carries now
        from bumps.parameter import Parameter as _BP
        bm2 = bumps_model.Model(model, **up)
        tgt = [n_ for n_ in bm2._parameter_names if n_ in pars and not n_.endswith(("_pd", "_pd_n", "_pd_nsigma"))
               and n_ not in ("scale", "background") and isinstance(up.get(n_, pars.get(n_)), float)]
        tgt = [n_ for n_ in tgt if i.parameters[n_].type in ("volume", "sld", "")][:1] if tgt else []
        up2 = dict(up)
        for n_ in tgt:
            newv = float(up2.get(n_, pars[n_]))*1.17 + 0.01
            lo_, hi_ = i.parameters[n_].limits
            if lo_ <= newv <= hi_:
                setattr(bm2, n_, _BP(newv, name=n_))
                up2[n_] = newv
        typed = [kk_[:-8] for kk_ in up if kk_.endswith("_pd_type") and hasattr(bm2, kk_)]
        if typed:
            # another distribution type chosen after construction (model.radius_pd_type = 'schulz')
            newt = [t_ for t_ in ("schulz", "lognormal", "gaussian") if t_ != up[typed[0] + "_pd_type"]][int(rng.integers(2))]
            if i.parameters[typed[0]].type != "orientation":
                setattr(bm2, typed[0] + "_pd_type", newt)
                up2[typed[0] + "_pd_type"] = newt
                rec.bucket("bumps:distribution-type-rebound")
        bm2.scale = _BP(float(up2.get("scale", 1.0))*1.5, name="scale")
        up2["scale"] = float(up2.get("scale", 1.0))*1.5
        kref2 = np.asarray(direct_model.call_kernel(kern, dict(up2), cutoff=cutoff), float)
        th2 = np.array(bumps_model.Experiment(data_for(dim, q), bm2, cutoff=cutoff).theory(), float)
        sc2_ = float(np.nanmax(np.abs(kref2))) if np.any(np.isfinite(kref2)) else 1.0
        ok2_ = core.close(th2, kref2, 1e-12, 1e-14*sc2_)
        rec.check("interfaces_agree", ok2_,
                  None if ok2_ else {"model": name, "dim": dim, "interface": "bumps Experiment on a Model whose attributes were rebound after construction",
                                     "rebound": {n_: up2[n_] for n_ in tgt + ["scale"]}, "kernel": kref2, "other": th2})
        rec.bucket("bumps:attributes-rebound")
    if dim == "1d" and k % 3 != 1:
        # the experiment's resolution replaced before its first evaluation (the documented way to attach another
        # resolution calculator, e.g. multiple scattering): theory is calculated on the new calculator's q values
        from sasmodels import resolution as sasres
        ex3 = bumps_model.Experiment(data_for(dim, q), bm, cutoff=cutoff)
        q2 = np.sort(np.concatenate([q[0]*1.13, q[0][:2]*0.71]))
        ex3.resolution = sasres.Perfect1D(q2)
        th3 = np.array(ex3.theory(), float)
        kref3 = np.asarray(direct_model.call_kernel(model.make_kernel([q2]), dict(up), cutoff=cutoff), float)
        ok3 = len(th3) == len(q2) and core.close(th3, kref3, 1e-12, 1e-14*float(np.nanmax(np.abs(kref3))))
        rec.check("interfaces_agree", ok3,
                  None if ok3 else {"model": name, "interface": "bumps Experiment with its resolution replaced before the first evaluation",
                                    "q_of_new_resolution": q2, "kernel_at_those_q": kref3, "other": th3})
        rec.bucket("bumps:resolution-replaced")
    if k % 2 == 0:
        # the same experiment object used further (simulated data drawn from it, residuals asked for) still returns
        # the model intensities as its theory
        try:
            ex_.simulate_data(noise=float(rng.uniform(2, 20)))
            ex_.residuals()
            res["bumps, same experiment after simulate_data"] = np.array(ex_.theory(), float)
            rec.bucket("bumps:after-simulate-data")
        except Exception as exc:   # pragma: no cover
            rec.check("interfaces_agree", False, {"model": name, "interface": "bumps Experiment.simulate_data", "exception": repr(exc)})
    ref = res["kernel"]
    sc = float(np.nanmax(np.abs(ref))) if np.any(np.isfinite(ref)) else 1.0
    for iface, val in res.items():
        rec.bucket("iface:" + iface)
        if iface == "kernel":
            continue
        ok = core.close(val, ref, 1e-12, 1e-14*sc)
        rec.check("interfaces_agree", ok, None if ok else {"model": name, "dim": dim, "interface": iface, "pars": up,
                                                         "cutoff": cutoff, "kernel": ref, "other": val,
                                                         "array_distribution_for": arr,
                                                         "max_rel_err": core.maxrel(val, ref, 1e-14*sc)})
    rec.bucket("dim:" + dim)
    if any(n_[-1].isdigit() for n_ in pd):
        rec.bucket("dispersity-on-vector-element:" + dim)
    rec.set_shape((name, dim, sorted(pd), sorted(res)), nontrivial=len(res) >= 3)
    if k == 0:
        rec.observe(model=name, dim=dim, dispersed=pd, values={kk: v[:3] for kk, v in res.items()})


def run_product(case, rec):
    from sasmodels import core as sascore, direct_model, sasview_model
    P, S = case["P"], case["S"]
    rng = core.rng_for(case["seed"], PROP, P, S)
    info = sascore.load_model_info(P + "@" + S)
    Pm = sasview_model._make_standard_model(P)()
    Sm = sasview_model._make_standard_model(S)()
    mm = sasview_model.MultiplicationModel(Pm, Sm)
    pars = sas.base_pars(info, 7)
    pars["volfraction"] = float(rng.uniform(0.05, 0.3))
    for kname, v in pars.items():
        if kname in mm.params:
            mm.setParam(kname, v)
    q = np.array([0.005, 0.02, 0.08])
    mm.cutoff = 0.0
    got = np.asarray(mm.evalDistribution(q), float)
    model = sascore.build_model(info, platform="dll")
    sub = {kk: v for kk, v in pars.items() if kk in mm.params}
    ref = np.asarray(direct_model.call_kernel(model.make_kernel([q]), sub), float)
    rec.check("interfaces_agree", core.close(got, ref, 1e-12, 0.0),
              {"model": P + "@" + S, "interface": "MultiplicationModel", "sasview": got, "kernel": ref})
    # the wrapper's report of the intermediates after a dispersity setting changed, asked for directly (no
    # evaluation in between): they are the ones of the current settings
    pdpar = [p_ for p_ in sas.info(P).parameters.call_parameters if p_.polydisperse and p_.type == "volume" and p_.name in mm.params]
    if pdpar and hasattr(mm, "calc_composition_models"):
        pn = pdpar[0].name
        for wv, nn in ((0.1, 8), (0.25, 12)):
            mm.setParam(pn + ".width", wv)
            mm.setParam(pn + ".npts", nn)
            parts = mm.calc_composition_models(q)
            sub2 = dict(sub, **{pn + "_pd": wv, pn + "_pd_n": nn, pn + "_pd_nsigma": 3.0, pn + "_pd_type": "gaussian"})
            kern2 = model.make_kernel([q])
            ref2 = np.asarray(direct_model.call_kernel(kern2, sub2), float)
            want = kern2.results()
            okp = parts is not None and len(parts) == 2 and all(
                core.close(np.asarray(got_, float), np.asarray(want[key][1], float), 1e-10, 0.0)
                for got_, key in zip(parts, ("P(Q)", "S(Q)")))
            rec.check("interfaces_agree", bool(okp),
                      {"model": P + "@" + S, "interface": "MultiplicationModel.calc_composition_models after %s.width=%g" % (pn, wv),
                       "sasview_P": None if parts is None else np.asarray(parts[0], float),
                       "kernel_P": np.asarray(want["P(Q)"][1], float)})
        rec.bucket("product:intermediates-after-setting-change")
    rec.bucket("product", "iface:sasview")
    rec.set_shape((P, S, "product"), True)


def run_select(case, rec):
    """Masks, q limits and NaN data select exactly the reference index, in order."""
    from sasmodels import core as sascore, direct_model, data as sdata, bumps_model
    k = case["k"]
    rng = core.rng_for(case["seed"], PROP, "select", k)
    name = ["sphere", "cylinder", "guinier", "core_shell_sphere"][k % 4]
    i = sas.info(name)
    model = sas.build(name)
    pars = {kk: v for kk, v in sas.base_pars(i, k).items()}
    if k % 2 == 0:
        n = int(rng.integers(8, 40))
        x = np.sort(rng.uniform(0.003, 0.3, n))
        y = rng.uniform(1, 2, n)
        nanidx = rng.random(n) < 0.2
        y[nanidx] = np.nan
        if k % 4 == 2:
            y[np.flatnonzero(~nanidx)[:2]] = [np.inf, -np.inf]
            rec.bucket("select:infinite-data-values")
        d = sdata.Data1D(x=x, y=y, dx=np.zeros(n) if k % 4 == 0 else None, dy=np.ones(n))
        mask = rng.random(n) < 0.25
        d.mask = mask | np.isnan(y) if k % 3 else mask.copy()
        d.qmin, d.qmax = float(np.quantile(x, 0.1)), float(np.quantile(x, 0.9))
        if k % 8 == 2:
            d.dx = None
            d.dxl, d.dxw = np.zeros(n), np.zeros(n)
        index = (x >= d.qmin) & (x <= d.qmax) & (~np.asarray(d.mask, bool)) & ~np.isnan(y)
        qsel = [x[index]]
        rec.bucket("select:mask", "select:qlimits", "select:nan")
    else:
        n = int(rng.integers(10, 50))
        qx, qy = rng.uniform(-0.2, 0.2, n), rng.uniform(-0.2, 0.2, n)
        z = rng.uniform(1, 2, n)
        z[rng.random(n) < 0.2] = np.nan
        if k % 4 == 1:
            # saturated / divided-by-zero pixels: infinite counts are not NaN, so those pixels are selected
            z[rng.random(n) < 0.15] = np.inf
            z[int(rng.integers(n))] = -np.inf
            rec.bucket("select:infinite-data-values")
        d = sdata.Data2D(x=qx, y=qy, z=z, dz=np.ones(n))
        d.dqx_data = d.dqy_data = None
        d.mask = (rng.random(n) < 0.25)
        qabs = np.hypot(qx, qy)
        # limits strictly between two data radii: a limit equal to one |q| would make the verdict depend on
        # the last bit of hypot() versus sqrt(qx^2+qy^2), which the statement does not fix
        sq = np.sort(qabs)
        lo_i, hi_i = max(int(0.1*n), 1), min(int(0.9*n), n - 2)
        d.qmin, d.qmax = float(0.5*(sq[lo_i - 1] + sq[lo_i])), float(0.5*(sq[hi_i] + sq[hi_i + 1]))
        if k % 4 == 3:
            # limits read from the data object's own |q| column (a ring selected by clicking on pixels): the pixels
            # whose radius equals a limit belong to the selection.  The column is the object's own, so no question of
            # how |q| is rounded arises.
            col = np.asarray(d.q_data, float)
            sc_ = np.sort(col)
            d.qmin, d.qmax = float(sc_[lo_i]), float(sc_[hi_i])
            qabs = col
            rec.bucket("select:limits-equal-to-pixel-radii")
        index = (~d.mask) & (qabs >= d.qmin) & (qabs <= d.qmax) & ~np.isnan(z)
        qsel = [qx[index], qy[index]]
        rec.bucket("select:mask", "select:qlimits", "select:nan")
    ref = np.asarray(direct_model.call_kernel(model.make_kernel(qsel), dict(pars)), float) if np.any(index) else np.array([])
    calc = direct_model.DirectModel(d, model)
    got = np.asarray(calc(**pars), float)
    ctx = {"model": name, "n": int(n), "selected": int(np.sum(index))}
    ok = (len(got) == int(np.sum(index))) and core.close(got, ref, 1e-12, 0.0)
    rec.check("selection_matches_reference_index", ok, dict(ctx, returned_length=len(got), interface="DirectModel",
                                                            got=got[:6], ref=ref[:6]))
    ex = bumps_model.Experiment(d, bumps_model.Model(model, **pars), cutoff=0.0)
    th = np.asarray(ex.theory(), float)
    ok2 = (len(th) == int(np.sum(index))) and core.close(th, ref, 1e-12, 0.0) and ex.numpoints() == int(np.sum(index))
    rec.check("selection_matches_reference_index", ok2, dict(ctx, returned_length=len(th), interface="bumps Experiment"))
    if k % 4 == 3:
        # more rings on the same data object, each bounded by the radii of two of its pixels
        col = np.asarray(d.q_data, float)
        sc_ = np.sort(col)
        for _ring in range(8):
            a_, b_ = sorted(int(x_) for x_ in rng.choice(n, 2, replace=False))
            d.qmin, d.qmax = float(sc_[a_]), float(sc_[b_])
            idx_ = (~d.mask) & (col >= d.qmin) & (col <= d.qmax) & ~np.isnan(z)
            if not np.any(idx_):
                continue
            ref_ = np.asarray(direct_model.call_kernel(model.make_kernel([qx[idx_], qy[idx_]]), dict(pars)), float)
            got_ = np.asarray(direct_model.DirectModel(d, model)(**pars), float)
            okr = (len(got_) == int(np.sum(idx_))) and core.close(got_, ref_, 1e-12, 0.0)
            rec.check("selection_matches_reference_index", okr,
                      dict(ctx, ring=[d.qmin, d.qmax], selected=int(np.sum(idx_)), returned_length=len(got_),
                           interface="DirectModel, limits equal to the radii of two pixels"))
    rec.set_shape(("select", name, k % 2, int(np.sum(index))), True)


PLUGIN_TEXT = """r\"\"\"plugin edited between loads (verification harness)\"\"\"
from numpy import inf
name = "%(name)s"
title = "plugin"
description = "plugin"
category = "shape-independent"
parameters = [["rg", "Ang", 40, [0, inf], "volume", "size"], ["amp", "", %(amp)r, [0, inf], "", "amplitude"]%(extra)s]
form_volume = \"\"\"
    return 1.0;
\"\"\"
Iq = \"\"\"
    return %(k)r*amp*exp(-q*q*rg*rg/3.0)%(term)s;
\"\"\"
"""


def run_plugin(case, rec):
    """A plugin model file that is revised between uses in one process: after every revision all interfaces (kernel through
    core.load_model, DirectModel, the keyword helper, the SasView object through load_custom_model) return the same values,
    and every interface knows the parameters the file now defines."""
    from sasmodels import core as sascore, direct_model, sasview_model, data as sdata
    k = case["k"]
    rng = core.rng_for(case["seed"], PROP, "plugin", k)
    d = os.path.join(os.environ.get("RTM_SCRATCH", "/tmp"), "c10plugins")
    os.makedirs(d, exist_ok=True)
    name = "rtm10_plug_%d" % k
    path = os.path.join(d, name + ".py")
    t0 = 1_700_000_000 + 1000*k
    q = np.array([0.003, 0.01, 0.03])
    revs = [dict(k=1.0, amp=2.0, extra="", term=""), dict(k=2.5, amp=2.0, extra="", term=""),
            dict(k=2.5, amp=3.0, extra=', ["floor", "", 0.5, [0, inf], "", "added term"]', term=" + floor"),
            dict(k=1.0, amp=2.0, extra="", term="")]
    first = ["sasview", "core"][k % 2]
    for step, rv in enumerate(revs):
        with open(path, "w") as f:
            f.write(PLUGIN_TEXT % dict(name=name, **rv))
        os.utime(path, (t0 + 100*step, t0 + 100*step))
        pars = {"rg": float(rng.uniform(20, 60)), "amp": float(rng.uniform(0.5, 3)), "scale": 1.0, "background": 0.0}
        if rv["term"]:
            pars["floor"] = float(rng.uniform(0.1, 1.0))
        exp = rv["k"]*pars["amp"]*np.exp(-q*q*pars["rg"]**2/3.0) + (pars.get("floor", 0.0))
        res = {}
        order = ["sasview", "core", "DirectModel", "keyword"] if first == "sasview" else ["core", "keyword", "sasview", "DirectModel"]
        for iface in order:
            try:
                if iface == "sasview":
                    m_ = sasview_model.load_custom_model(path)()
                    for kk, vv in pars.items():
                        m_.setParam(kk, vv)
                    res[iface] = np.asarray(m_.evalDistribution(q.copy()), float)
                elif iface == "core":
                    res[iface] = np.asarray(direct_model.call_kernel(sascore.load_model(path).make_kernel([q]), dict(pars)), float)
                elif iface == "DirectModel":
                    res[iface] = np.asarray(direct_model.DirectModel(sdata.empty_data1D(q), sascore.load_model(path))(**pars), float)
                else:
                    res[iface] = np.asarray(direct_model.Iq(path, q, **pars), float)
            except Exception as exc:
                res[iface] = repr(exc)[:300]
        for iface, val in res.items():
            ok = not isinstance(val, str) and core.close(val, exp, 1e-10, 1e-13)
            rec.check("interfaces_agree", ok,
                      None if ok else {"model": "plugin file revised in this process", "revision": step, "definition": rv, "interface": iface,
                                       "order_of_use": order, "observed": val, "formula_now_in_the_file": exp, "pars": pars})
        rec.bucket("plugin-revised:first-through-" + first)
    rec.set_shape(("plugin", k), True)


def run_refuse(case, rec):
    """A name the model does not define must raise in every interface, never be ignored."""
    from sasmodels import direct_model, sasview_model, bumps_model
    k = case["k"]
    rng = core.rng_for(case["seed"], PROP, "refuse", k)
    models = sas.list_models()
    name = models[int(rng.integers(len(models)))]
    i = sas.info(name)
    names = [p.name for p in i.parameters.call_parameters]
    kind = ["misspelt", "foreign", "pd_suffix", "bad_attribute"][k % 4]
    disp = [p.name for p in i.parameters.call_parameters if p.polydisperse]
    if kind == "bad_attribute" and not disp:
        kind = "misspelt"
    if kind == "misspelt":
        base = names[int(rng.integers(len(names)))]
        bad = base + "x" if rng.random() < 0.5 else base[:-1] if len(base) > 2 else base + "_"
        if bad in names:
            bad = bad + "q"
        value = 1.0
    elif kind == "foreign":
        other = sas.info(models[int(rng.integers(len(models)))])
        cand = [p.name for p in other.parameters.call_parameters if p.name not in names]
        if not cand:
            cand = ["no_such_parameter"]
        bad, value = cand[int(rng.integers(len(cand)))], 1.0
    elif kind == "bad_attribute":
        # a dispersible parameter with a distribution attribute that does not exist
        base = disp[int(rng.integers(len(disp)))]
        j = int(rng.integers(5))
        bad = base + ["_pd_widht", "_pd_sigma", "_pd_npts", "_pdn", "_pd_"][j]
        dotted_attr = base + [".widht", ".sigma", ".npt", ".n", "."][j]
        value = 0.1
    else:
        nondisp = [p.name for p in i.parameters.call_parameters if not p.polydisperse]
        base = nondisp[int(rng.integers(len(nondisp)))]
        bad, value = base + ["_pd", "_pd_n", "_pd_nsigma"][int(rng.integers(3))], 0.1
    rec.bucket("refuse:" + kind)
    model = sas.build(name)
    q = [np.array([0.01, 0.1])]
    ctx = {"model": name, "bad_name": bad, "kind": kind}
    attempts = {
        "kernel": lambda: direct_model.call_kernel(model.make_kernel(q), {bad: value}),
        "DirectModel": lambda: direct_model.DirectModel(data_for("1d", q), model)(**{bad: value}),
        "keyword": lambda: direct_model.Iq(name, q[0], **{bad: value}),
        "bumps": lambda: bumps_model.Model(model, **{bad: value}),
    }
    dotted = dotted_attr if kind == "bad_attribute" else bad
    for a, b in (("_pd_nsigma", ".nsigmas"), ("_pd_n", ".npts"), ("_pd", ".width")):
        if kind == "pd_suffix" and bad.endswith(a):
            dotted = bad[:-len(a)] + b
            break
    Model = sasview_model._make_standard_model(name)
    control = [p.id for p in i.parameters.kernel_parameters if p.is_control]
    attempts["sasview"] = lambda: (Model(2) if control else Model()).setParam(dotted, value)
    for iface, fn in attempts.items():
        try:
            out = fn()
            rec.check("unknown_name_refused", False, dict(ctx, interface=iface, returned=repr(out)[:200]))
        except (TypeError, ValueError, KeyError) as exc:
            rec.check("unknown_name_refused", True)
    # the refusal does not wear off: one calculator object, a good call, then the same bad call three times
    calc = direct_model.DirectModel(data_for("1d", q), model)
    good = np.asarray(calc(), float)
    for attempt in range(3):
        try:
            out = calc(**{bad: value})
            rec.check("unknown_name_refused", False, dict(ctx, interface="DirectModel (same object, attempt %d after a good call)"
                                                          % (attempt + 1), returned=repr(out)[:200]))
        except (TypeError, ValueError, KeyError):
            rec.check("unknown_name_refused", True)
    i_ = sas.info(name)
    first_par = [p_.name for p_ in i_.parameters.call_parameters if p_.name not in ("scale", "background")]
    try:
        calc(scale=2.5, background=0.3, **({first_par[0]: i_.parameters[first_par[0]].default*1.1} if first_par else {}))
    except Exception:
        pass
    again = np.asarray(calc(), float)
    rec.check("interfaces_agree", bool(np.array_equal(good, again)),
              dict(ctx, interface="DirectModel default call after refused calls and a call with other keywords", first=good, again=again))
    rec.bucket("refuse:repeated-on-one-object")
    rec.set_shape(("refuse", name, kind, bad), True)


def run_case(case, rec):
    worker_init(None, None)
    {"agree": run_agree, "product": run_product, "select": run_select, "refuse": run_refuse, "plugin": run_plugin}[case["kind"]](case, rec)


LEVEL_TEXT = ("The same generated request is issued through five real interfaces (kernel, DirectModel, keyword functions, "
              "SasviewModel incl. multiplicity/array distributions/MultiplicationModel, bumps Experiment) and compared "
              "pairwise at rtol 1e-12; generated data objects with masks, q limits and NaN data must select exactly the "
              "reference index; generated unknown names must raise in every interface.  Exploration.")
LEVEL_NOTE = "bumps.parameter is a stub; 2-D data carry no resolution columns so that interfaces compare unsmeared theory."
TECHNIQUE = "differential monitor across calling interfaces + reference-index monitor + refusal monitor over generated requests"
