"""
C11 - results do not depend on call history and inputs are not modified.

History + executable model.  The sequential model is a table request -> bytes,
where every entry was produced by *one fresh Python process* evaluating that
request first thing.  Random operation histories over several models sharing
one process are then executed; after every evaluating step the returned bytes
must equal the table entry bit for bit, with the poison monitor armed.  Every
caller-supplied dict and array is snapshotted before each call and compared
afterwards.
"""
from __future__ import annotations

import copy
import hashlib
import json
import os
import subprocess
import sys
import tempfile
from concurrent.futures import ThreadPoolExecutor

import numpy as np

from rtm import core

PROP = "C11"
LEVEL = "exploration"
RULE = ("A pool of ~55 distinct requests over 9 models (sphere, cylinder, core_multi_shell, hollow_cylinder, hardsphere, "
        "a Python plugin with a volume parameter, a C plugin with only dispersible parameters, cylinder@hardsphere, sphere+cylinder, sphere*line) x 5 interfaces; "
        "random operation histories (length <= 40) over {make_kernel, call_kernel, call_Fq, DirectModel call, SasviewModel "
        "setParam/evalDistribution/clone, kernel release, model release, reload}, biased towards different requests "
        "interleaved on one kernel object, repeats, dispersity/magnetism toggles, big-then-small meshes and "
        "release-then-reuse.  Distinct: hash of the operation sequence; non-trivial: >= 2 different requests were "
        "evaluated on a shared object or after a release/reload.")
ASSUMPTIONS = [
    "a request evaluated first thing in a fresh process is the reference (3 fresh processes agree bit for bit)",
    "the on-disk library cache is shared by the oracle processes (its content is C17/C18's business)",
]
REQUIRED_MONITORS = ["same_bytes_as_fresh_process", "inputs_unchanged", "no_stale_result", "fresh_processes_agree",
                     "earlier_results_not_overwritten"]
REQUIRED_BUCKETS = {"quick": ["op:call_kernel", "op:call_Fq", "op:direct", "op:sasview", "op:clone", "op:release_kernel",
                              "op:release_model", "op:reload", "shared_kernel_interleaving", "toggle:dispersity",
                              "toggle:magnetic", "repeat_identical", "big_then_small", "empty_or_one_point_mesh",
                              "python_model", "composite_model", "q_shares_one_axis_with_previous",
                              "q_shares_first_point_with_previous", "reff_mode_on_then_off", "lane:asan",
                              "op:other_precision", "op:keyword2d", "op:keyword1d", "op:direct2d", "op:redisperse"]}
REQUIRED_BUCKETS["thorough"] = REQUIRED_BUCKETS["quick"]

HERE = os.path.dirname(os.path.abspath(__file__))
PLUGIN = '''
r"""Python plugin with a volume parameter (verification harness)."""
import numpy as np
from numpy import inf
name = "rtm_pysphere"
title = "python sphere"
description = "python sphere"
category = "shape:sphere"
parameters = [["sld", "1e-6/Ang^2", 1, [-inf, inf], "sld", ""],
              ["sld_solvent", "1e-6/Ang^2", 6, [-inf, inf], "sld", ""],
              ["radius", "Ang", 50, [0, inf], "volume", ""]]
def form_volume(radius):
    return 4.0/3.0*np.pi*radius**3
def Iq(q, sld, sld_solvent, radius):
    qr = q*radius
    with np.errstate(all="ignore"):
        bes = np.where(qr == 0, 1.0, 3.0*(np.sin(qr) - qr*np.cos(qr))/qr**3)
    f = bes*(sld - sld_solvent)*form_volume(radius)
    return 1.0e-4*f**2
Iq.vectorized = True
'''


CPLUGIN = '''
r"""C plugin whose parameters are all dispersible (verification harness)."""
from numpy import inf
name = "rtm_cshell"
title = "c plugin"
description = "c plugin with volume parameters only"
category = "shape:sphere"
parameters = [["radius", "Ang", 40, [0, inf], "volume", ""],
              ["thickness", "Ang", 10, [0, inf], "volume", ""]]
form_volume = "return M_4PI_3*cube(radius+thickness);"
Iq = """
    const double r = radius + thickness;
    const double f = sas_3j1x_x(q*r)*form_volume(radius, thickness) - 0.5*sas_3j1x_x(q*radius)*M_4PI_3*cube(radius);
    return 1.0e-4*f*f;
"""
source = ["lib/sas_3j1x_x.c"]
'''


def cplugin_path():
    d = os.path.join(os.environ.get("RTM_C11_DIR") or os.environ.get("RTM_SCRATCH") or tempfile.gettempdir(), "c11plugin")
    os.makedirs(d, exist_ok=True)
    p = os.path.join(d, "rtm_cshell.py")
    if not os.path.exists(p):
        with open(p, "w") as f:
            f.write(CPLUGIN)
    return p


CPLUGIN3 = '''
r"""C plugin with an external source file that is swapped between two revisions (verification harness)."""
from numpy import inf
name = "rtm_c3"
title = "c3"
description = "c3"
category = "shape:sphere"
parameters = [["radius", "Ang", 30, [0, inf], "volume", "size"]]
source = ["rtm_c3_inc.c"]
form_volume = """
    return 1.0;
"""
Iq = """
    return c3_const()*exp(-q*q*radius*radius/3.0);
"""
'''


def cplugin3_path(version):
    """The plugin with revision *version* of its C file in place.  Revision B carries an OLDER time stamp than revision A
    (a backup copied back with its times preserved).  One directory per process: processes do not share these files."""
    d = os.path.join(os.environ.get("RTM_C11_DIR") or os.environ.get("RTM_SCRATCH") or tempfile.gettempdir(), "c11plugin3",
                     "p%d" % os.getpid())
    os.makedirs(d, exist_ok=True)
    p, c = os.path.join(d, "rtm_c3.py"), os.path.join(d, "rtm_c3_inc.c")
    t0 = 1_700_000_000
    if not os.path.exists(p):
        with open(p, "w") as f:
            f.write(CPLUGIN3)
        os.utime(p, (t0, t0))
    text = "static double c3_const(void) { return %s; }\n" % {"A": "3.0", "B": "7.0"}[version]
    if not os.path.exists(c) or open(c).read() != text:
        with open(c, "w") as f:
            f.write(text)
    stamp = t0 + 500 if version == "A" else t0 - 500
    os.utime(c, (stamp, stamp))
    return p


def plugin2_path():
    """A different definition under the same file name (hence the same model id) in another directory."""
    d = os.path.join(os.environ.get("RTM_C11_DIR") or os.environ.get("RTM_SCRATCH") or tempfile.gettempdir(), "c11plugin", "other")
    os.makedirs(d, exist_ok=True)
    p = os.path.join(d, "rtm_pysphere.py")
    if not os.path.exists(p):
        with open(p, "w") as f:
            f.write(PLUGIN.replace("return 1.0e-4*f**2", "return 3.0e-4*f**2 + 0.25"))
    return p


def plugin_path():
    d = os.path.join(os.environ.get("RTM_C11_DIR") or os.environ.get("RTM_SCRATCH") or tempfile.gettempdir(), "c11plugin")
    os.makedirs(d, exist_ok=True)
    p = os.path.join(d, "rtm_pysphere.py")
    if not os.path.exists(p):
        with open(p, "w") as f:
            f.write(PLUGIN)
    return p


Q3 = [0.011, 0.052, 0.23]
Q7 = [0.004, 0.009, 0.02, 0.045, 0.09, 0.17, 0.31]
QXY = ([0.03, -0.05, 0.0, 0.11, -0.07], [0.02, 0.04, -0.09, 0.0, -0.06])
# requests that share part of their q input with another request of the same length
QXY_SAMEX = ([0.03, -0.05, 0.0, 0.11, -0.07], [0.05, 0.05, 0.05, 0.05, 0.05])
QXY_SAMEY = ([0.01, 0.02, 0.04, -0.08, 0.1], [0.02, 0.04, -0.09, 0.0, -0.06])
Q3B = [0.011, 0.07, 0.19]


def requests():
    R = {}

    def add(name, **kw):
        kw.setdefault("cutoff", 0.0)
        kw.setdefault("via", "call_kernel")
        R[name] = kw

    sph = {"radius": 45.0, "sld": 2.0, "sld_solvent": 6.3, "scale": 0.7, "background": 0.05}
    add("sphere/mono3", model="sphere", q=Q3, pars=sph)
    add("sphere/mono7", model="sphere", q=Q7, pars=sph)
    add("sphere/pd35", model="sphere", q=Q3, pars=dict(sph, radius_pd=0.15, radius_pd_n=35, radius_pd_nsigma=3))
    add("sphere/pd35-cut", model="sphere", q=Q3, cutoff=1e-4,
        pars=dict(sph, radius_pd=0.15, radius_pd_n=35, radius_pd_type="schulz"))
    add("sphere/empty", model="sphere", q=Q3, pars=dict(sph, radius=-1.0, radius_pd=0.1, radius_pd_n=10), tag="edge")
    add("sphere/onepoint", model="sphere", q=Q3,
        pars=dict(sph, radius=10.0, radius_pd=2.0, radius_pd_n=2, radius_pd_nsigma=1.0), tag="edge")
    add("sphere/Fq", model="sphere", q=Q3, via="call_Fq", pars=dict(sph, radius_effective_mode=1))
    add("sphere/direct-pinhole", model="sphere", q=Q7, via="direct", dq=0.08, pars=sph)
    add("sphere/direct-perfect", model="sphere", q=Q7, via="direct", dq=0.0, pars=dict(sph, radius_pd=0.1, radius_pd_n=10))
    add("sphere/sasview", model="sphere", q=Q3, via="sasview", pars=dict(sph, **{"radius.width": 0.1, "radius.npts": 20}))
    add("sphere/mag2d", model="sphere", q=QXY, pars=dict(sph, sld_M0=1.5, sld_mtheta=30.0, sld_mphi=40.0,
                                                          up_frac_i=0.3, up_frac_f=0.8, up_theta=70.0), tag="mag")
    add("sphere/2d", model="sphere", q=QXY, pars=sph)
    add("sphere/2d-samex", model="sphere", q=QXY_SAMEX, pars=sph)
    add("sphere/2d-samey", model="sphere", q=QXY_SAMEY, pars=sph)
    add("sphere/mono3b", model="sphere", q=Q3B, pars=sph)
    add("sphere/sasview2d", model="sphere", q=QXY, via="sasview", pars=sph)
    add("sphere/sasview2d-samex", model="sphere", q=QXY_SAMEX, via="sasview", pars=sph)
    add("sphere/sasview3b", model="sphere", q=Q3B, via="sasview", pars=sph)
    add("sphere/Fq0", model="sphere", q=Q3, via="call_Fq", pars=dict(sph, radius_effective_mode=0))
    cyl = {"radius": 22.0, "length": 310.0, "sld": 4.0, "sld_solvent": 1.0, "scale": 0.02, "background": 0.001}
    add("cylinder/mono3", model="cylinder", q=Q3, pars=cyl)
    add("cylinder/mono7", model="cylinder", q=Q7, pars=cyl)
    add("cylinder/pd165", model="cylinder", q=Q3, pars=dict(cyl, radius_pd=0.1, radius_pd_n=15, length_pd=0.2,
                                                             length_pd_n=11, length_pd_type="lognormal"))
    add("cylinder/pd9", model="cylinder", q=Q3, pars=dict(cyl, radius_pd=0.1, radius_pd_n=3, length_pd=0.2, length_pd_n=3))
    add("cylinder/Fq1", model="cylinder", q=Q3, via="call_Fq", pars=dict(cyl, radius_effective_mode=1))
    add("cylinder/Fq3pd", model="cylinder", q=Q3, via="call_Fq",
        pars=dict(cyl, radius_effective_mode=3, radius_pd=0.1, radius_pd_n=8))
    add("cylinder/2d", model="cylinder", q=QXY, pars=dict(cyl, theta=40.0, phi=25.0))
    add("cylinder/2d-samex", model="cylinder", q=QXY_SAMEX, pars=dict(cyl, theta=40.0, phi=25.0))
    add("cylinder/2d-samey", model="cylinder", q=QXY_SAMEY, pars=dict(cyl, theta=40.0, phi=25.0))
    add("cylinder/Fq0", model="cylinder", q=Q3, via="call_Fq", pars=dict(cyl, radius_effective_mode=0))
    add("cylinder/Fq0pd", model="cylinder", q=Q3, via="call_Fq",
        pars=dict(cyl, radius_effective_mode=0, radius_pd=0.1, radius_pd_n=8))
    add("cylinder/2djit", model="cylinder", q=QXY, pars=dict(cyl, theta=40.0, phi=25.0, theta_pd=10.0, theta_pd_n=7,
                                                            phi_pd=5.0, phi_pd_n=5, phi_pd_type="uniform",
                                                            radius_pd=0.1, radius_pd_n=4))
    add("cylinder/mag2d", model="cylinder", q=QXY, pars=dict(cyl, theta=40.0, phi=25.0, sld_solvent_M0=2.0,
                                                            sld_solvent_mtheta=-20.0, up_frac_i=0.9, up_frac_f=0.1,
                                                            up_phi=33.0), tag="mag")
    add("cylinder/sasview-pd", model="cylinder", q=Q3, via="sasview",
        pars=dict(cyl, **{"radius.width": 0.1, "radius.npts": 9, "radius.type": "schulz", "length.width": 0.1,
                          "length.npts": 12}))
    add("cylinder/sasview-mono", model="cylinder", q=Q7, via="sasview", pars=cyl)
    add("cylinder/direct-slit", model="cylinder", q=Q7, via="direct", dxl=0.05, pars=cyl)
    cms = {"n": 3.0, "radius": 30.0, "sld_core": 1.0, "sld_solvent": 6.3, "sld1": 2.0, "sld2": 3.0, "sld3": 4.0,
           "thickness1": 10.0, "thickness2": 15.0, "thickness3": 7.0, "scale": 0.5, "background": 0.01}
    add("cms/mono", model="core_multi_shell", q=Q3, pars=cms)
    add("cms/n1", model="core_multi_shell", q=Q3, pars=dict(cms, n=1.0))
    add("cms/pd", model="core_multi_shell", q=Q3, pars=dict(cms, thickness2_pd=0.2, thickness2_pd_n=12, radius_pd=0.1,
                                                            radius_pd_n=10))
    add("cms/onepoint", model="core_multi_shell", q=Q3,
        pars=dict(cms, thickness1_pd=2.0, thickness1_pd_n=2, thickness1_pd_nsigma=1.0), tag="edge")
    add("cms/mag2d", model="core_multi_shell", q=QXY, pars=dict(cms, sld1_M0=2.5, sld1_mtheta=10.0, sld1_mphi=80.0,
                                                               sld_core_M0=-1.0, up_frac_i=0.5, up_frac_f=0.5), tag="mag")
    add("cms/Fq", model="core_multi_shell", q=Q7, via="call_Fq", pars=dict(cms, radius_effective_mode=1))
    hc = {"radius": 20.0, "thickness": 10.0, "length": 400.0, "sld": 6.3, "sld_solvent": 1.0, "scale": 1.0,
          "background": 0.0}
    add("hc/mono", model="hollow_cylinder", q=Q3, pars=hc)
    add("hc/Fq2", model="hollow_cylinder", q=Q3, via="call_Fq", pars=dict(hc, radius_effective_mode=2))
    add("hc/Fq0", model="hollow_cylinder", q=Q3, via="call_Fq", pars=dict(hc, radius_effective_mode=0))
    add("hc/pd120", model="hollow_cylinder", q=Q3, pars=dict(hc, radius_pd=0.1, radius_pd_n=6, thickness_pd=0.15,
                                                            thickness_pd_n=5, length_pd=0.1, length_pd_n=4))
    add("hc/empty", model="hollow_cylinder", q=Q3, pars=dict(hc, thickness=-2.0, thickness_pd=0.1, thickness_pd_n=4),
        tag="edge")
    hs = {"radius_effective": 50.0, "volfraction": 0.2}
    add("hs/mono", model="hardsphere", q=Q3, pars=hs)
    add("hs/mono7", model="hardsphere", q=Q7, pars=dict(hs, volfraction=0.35))
    add("hs/sasview", model="hardsphere", q=Q3, via="sasview", pars=hs)
    ps = dict(cyl, radius_effective=30.0, volfraction=0.15, radius_effective_mode=0, structure_factor_mode=0)
    add("cyl@hs/mode0", model="cylinder@hardsphere", q=Q3, pars=ps)
    add("cyl@hs/mode2beta", model="cylinder@hardsphere", q=Q3, pars=dict(ps, radius_effective_mode=2,
                                                                        structure_factor_mode=1))
    add("cyl@hs/pd", model="cylinder@hardsphere", q=Q3, pars=dict(ps, radius_effective_mode=1, radius_pd=0.2,
                                                                  radius_pd_n=12, length_pd=0.1, length_pd_n=10))
    add("cyl@hs/2d", model="cylinder@hardsphere", q=QXY, pars=dict(ps, theta=30.0, phi=10.0))
    mix = {"scale": 1.3, "background": 0.02, "A_scale": 0.4, "A_radius": 30.0, "A_sld": 1.0, "A_sld_solvent": 6.0,
           "B_scale": 2.0, "B_radius": 15.0, "B_length": 200.0, "B_sld": 3.0, "B_sld_solvent": 6.0}
    add("sph+cyl/mono", model="sphere+cylinder", q=Q3, pars=mix)
    add("sph+cyl/pd", model="sphere+cylinder", q=Q3, pars=dict(mix, A_radius_pd=0.1, A_radius_pd_n=10, B_length_pd=0.2,
                                                              B_length_pd_n=8))
    add("sph+cyl/2d", model="sphere+cylinder", q=QXY, pars=dict(mix, B_theta=50.0, B_phi=15.0))
    add("sph+cyl/pd-A6", model="sphere+cylinder", q=Q3, pars=dict(mix, A_radius_pd=0.1, A_radius_pd_n=6, B_length_pd=0.2,
                                                                 B_length_pd_n=8))
    add("sph+cyl/pd-B5", model="sphere+cylinder", q=Q3, pars=dict(mix, A_radius_pd=0.1, A_radius_pd_n=10, B_length_pd=0.2,
                                                                 B_length_pd_n=5))
    # sums of models with magnetic terms on a detector image (both terms, or only the second)
    add("sph+cyl/mag2d", model="sphere+cylinder", q=QXY, tag="mag",
        pars=dict(mix, B_theta=50.0, B_phi=15.0, A_sld_M0=1.5, A_sld_mtheta=20.0, A_sld_mphi=35.0, B_sld_M0=-2.0, B_sld_mtheta=60.0,
                  up_frac_i=0.3, up_frac_f=0.7, up_theta=80.0))
    add("sph+cyl/mag2d-B", model="sphere+cylinder", q=QXY, tag="mag",
        pars=dict(mix, B_theta=50.0, B_phi=15.0, B_sld_solvent_M0=1.2, B_sld_solvent_mphi=25.0, up_frac_i=0.6, up_frac_f=0.4,
                  up_theta=70.0))
    # products with form factors that have different numbers of parameters
    add("sph@hs/ck", model="sphere@hardsphere", q=Q3,
        pars={"radius": 40.0, "sld": 1.0, "sld_solvent": 6.0, "scale": 1.0, "background": 0.01, "volfraction": 0.2,
              "radius_effective": 45.0, "radius_effective_mode": 0, "structure_factor_mode": 0})
    add("css@hs/ck", model="core_shell_sphere@hardsphere", q=Q3,
        pars={"radius": 30.0, "thickness": 12.0, "sld_core": 1.0, "sld_shell": 2.5, "sld_solvent": 6.0, "scale": 0.9,
              "background": 0.02, "volfraction": 0.25, "radius_effective_mode": 1, "structure_factor_mode": 0})
    sw = {"radius": 40.0, "sld": 1.0, "sld_solvent": 6.0, "scale": 1.0, "background": 0.0, "volfraction": 0.2,
          "welldepth": 1.2, "wellwidth": 1.3, "radius_effective": 45.0, "radius_effective_pd": 0.2,
          "radius_effective_pd_n": 8, "structure_factor_mode": 0}
    add("sph@sw/pd-mode1", model="sphere@squarewell", q=Q3, pars=dict(sw, radius_effective_mode=1))
    add("sph@sw/pd-mode0", model="sphere@squarewell", q=Q3, pars=dict(sw, radius_effective_mode=0))
    add("sph@sw/mono-mode0", model="sphere@squarewell", q=Q3, pars=dict(sw, radius_effective_mode=0, radius_effective_pd_n=0))
    add("sph@sw/pd-mode1-beta", model="sphere@squarewell", q=Q3, pars=dict(sw, radius_effective_mode=1,
                                                                         structure_factor_mode=1, radius_pd=0.1,
                                                                         radius_pd_n=6))
    prod = {"scale": 1.0, "background": 0.0, "A_radius": 30.0, "A_sld": 1.0, "A_sld_solvent": 6.0, "B_intercept": 2.0,
            "B_slope": 3.0}
    add("sph*line/mono", model="sphere*line", q=Q3, pars=prod)
    add("sph*line/zero", model="sphere*line", q=Q3, pars=dict(prod, A_sld=6.0), tag="edge")
    py = {"radius": 35.0, "sld": 1.5, "sld_solvent": 6.0, "scale": 0.3, "background": 0.1}
    add("py/mono", model="PLUGIN", q=Q3, pars=py)
    add("py/mono7", model="PLUGIN", q=Q7, pars=py)
    add("py/pd", model="PLUGIN", q=Q3, pars=dict(py, radius_pd=0.2, radius_pd_n=15))
    add("py/pd-other", model="PLUGIN", q=Q3, pars=dict(py, radius=60.0, radius_pd=0.1, radius_pd_n=4, radius_pd_type="uniform"))
    add("py/empty", model="PLUGIN", q=Q3, pars=dict(py, radius=-3.0, radius_pd=0.1, radius_pd_n=5), tag="edge")
    add("py/onepoint", model="PLUGIN", q=Q3, pars=dict(py, radius_pd=2.0, radius_pd_n=2, radius_pd_nsigma=1.0), tag="edge")
    add("py/Fq", model="PLUGIN", q=Q3, via="call_Fq", pars=dict(py, radius_effective_mode=0))
    add("py/2d", model="PLUGIN", q=QXY, pars=py)
    add("py/2d-samex", model="PLUGIN", q=QXY_SAMEX, pars=py)
    add("py/Fq1", model="PLUGIN", q=Q3, via="call_Fq", pars=dict(py, radius_effective_mode=1))
    add("py/sasview", model="PLUGIN", q=Q3, via="sasview", pars=dict(py, **{"radius.width": 0.1, "radius.npts": 6}))
    add("py2/sasview", model="PLUGIN2", q=Q3, via="sasview", pars=dict(py, **{"radius.width": 0.1, "radius.npts": 6}))
    add("py2/mono", model="PLUGIN2", q=Q3, pars=py)
    # caller-supplied (values, weights) arrays of an empirical distribution, weights not normalised
    add("sphere/sasview-array", model="sphere", q=Q3, via="sasview", pars=sph,
        array={"par": "radius", "values": [30.0, 38.5, 44.0, 51.25, 60.0], "weights": [0.7, 1.9, 3.3, 2.1, 0.6]})
    add("cylinder/sasview-array", model="cylinder", q=Q3, via="sasview", pars=cyl,
        array={"par": "length", "values": [250.0, 300.0, 333.0, 410.0], "weights": [1.0, 3.0, 3.0, 1.7]})
    c3 = {"radius": 25.0, "scale": 1.5, "background": 0.2}
    add("cplug3/A", model="CPLUGIN3:A", q=Q3, pars=c3)
    add("cplug3/B", model="CPLUGIN3:B", q=Q3, pars=c3)
    # the monodisperse switch of the entry points, with dispersity entries present in the caller's dictionary
    add("sphere/pd35-mono", model="sphere", q=Q3, pars=dict(sph, radius_pd=0.15, radius_pd_n=35, radius_pd_nsigma=3), mono=True)
    add("cylinder/pd165-mono", model="cylinder", q=Q3, mono=True,
        pars=dict(cyl, radius_pd=0.1, radius_pd_n=15, length_pd=0.2, length_pd_n=11, length_pd_type="lognormal"))
    add("cylinder/Fq3pd-mono", model="cylinder", q=Q3, via="call_Fq", mono=True,
        pars=dict(cyl, radius_effective_mode=3, radius_pd=0.1, radius_pd_n=8))
    # requests whose values agree to six significant digits and differ beyond
    add("sphere/pd-r50", model="sphere", q=Q3, pars=dict(sph, radius=50.0, radius_pd=0.1, radius_pd_n=9))
    add("sphere/pd-r50eps", model="sphere", q=Q3, pars=dict(sph, radius=50.00002, radius_pd=0.1, radius_pd_n=9))
    add("sphere/pd-w01eps", model="sphere", q=Q3, pars=dict(sph, radius=50.0, radius_pd=0.1000004, radius_pd_n=9))
    add("sphere/sasview-r50", model="sphere", q=Q3, via="sasview", pars=dict(sph, radius=50.0))
    add("sphere/sasview-r50eps", model="sphere", q=Q3, via="sasview", pars=dict(sph, radius=50.00002))
    add("sphere/sasview-rect", model="sphere", q=Q3, via="sasview",
        pars=dict(sph, **{"radius.width": 0.15, "radius.npts": 12, "radius.nsigmas": 1.7, "radius.type": "rectangle"}))
    psv = {"radius": 40.0, "sld": 1.0, "sld_solvent": 6.0, "scale": 1.0, "background": 0.01, "volfraction": 0.2,
           "radius_effective": 62.0}
    add("sph@hs/sasview-mode1", model="sphere@hardsphere", q=Q3, via="sasview", pars=dict(psv, radius_effective_mode=1))
    add("sph@hs/sasview-mode0", model="sphere@hardsphere", q=Q3, via="sasview", pars=dict(psv, radius_effective_mode=0))
    add("sph@hs/sasview-mode1-parts", model="sphere@hardsphere", q=Q3, via="sasview", pars=dict(psv, radius_effective_mode=1),
        composition_first=True)
    # answers in the subnormal range of double precision (below 2.2e-308)
    add("guinier/subnormal", model="guinier", q=[0.29, 0.30, 0.31], pars={"rg": 150.0, "scale": 1.0, "background": 0.0})
    add("sphere/tiny-scale", model="sphere", q=Q3, pars=dict(sph, scale=3e-312, background=0.0))
    # keyword helpers and a calculator on a 2-D data object, with the caller's own coordinate and resolution arrays
    # (no pixel excluded; one of the two widths zero, or zero in one pixel)
    add("sphere/Iqxy-res", model="sphere", q=QXY, via="keyword2d", pars=sph,
        dqx=[0.004, 0.005, 0.003, 0.006, 0.004], dqy=[0.0, 0.0, 0.0, 0.0, 0.0])
    add("cylinder/Iqxy-res", model="cylinder", q=QXY, via="keyword2d", pars=dict(cyl, theta=40.0, phi=25.0),
        dqx=[0.004, 0.0, 0.003, 0.006, 0.004], dqy=[0.002, 0.003, 0.0, 0.001, 0.002])
    add("sphere/Iq-res", model="sphere", q=Q7, via="keyword1d", pars=sph, dqa=[0.001, 0.0, 0.002, 0.004, 0.0, 0.01, 0.02])
    add("sphere/direct2d-res", model="sphere", q=QXY, via="direct2d", pars=sph,
        dqx=[0.004, 0.005, 0.003, 0.006, 0.004], dqy=[0.0, 0.0, 0.0, 0.0, 0.0])
    cp = {"radius": 33.0, "thickness": 8.0, "scale": 0.9, "background": 0.3}
    add("cplug/sasview", model="CPLUGIN", q=Q3, via="sasview", pars=cp)
    add("cplug/mono", model="CPLUGIN", q=Q3, pars=cp)
    add("cplug/pd", model="CPLUGIN", q=Q3, pars=dict(cp, radius_pd=0.2, radius_pd_n=12, thickness_pd=0.3, thickness_pd_n=9))
    add("cplug/empty", model="CPLUGIN", q=Q3, pars=dict(cp, radius=-5.0, radius_pd=0.1, radius_pd_n=6), tag="edge")
    add("cplug/empty2", model="CPLUGIN", q=Q3, pars=dict(cp, thickness=-1.0, thickness_pd=0.5, thickness_pd_n=3,
                                                          radius_pd=0.1, radius_pd_n=4), tag="edge")
    return R


# ---------------------------------------------------------------------------
# evaluation of one request against a process state (shared by the oracle
# processes and by the history runner)
# ---------------------------------------------------------------------------

class State:
    def __init__(self):
        self.models = {}
        self.kernels = {}
        self.sasview = {}
        self.direct = {}
        self.arrays = {}
        self.reuse_buffers = False

    def model(self, name):
        from sasmodels import core as sascore
        if name.startswith("CPLUGIN3:"):
            # loaded anew at every use, with the requested revision of its C file in place
            return sascore.load_model(cplugin3_path(name.split(":")[1]), dtype="double", platform="dll")
        if name not in self.models:
            path = plugin_path() if name == "PLUGIN" else plugin2_path() if name == "PLUGIN2" else \
                cplugin_path() if name == "CPLUGIN" else name
            self.models[name] = sascore.load_model(path, dtype="double", platform="dll")
        return self.models[name]

    def kernel(self, name, q):
        key = (name, json.dumps(q))
        if name.startswith("CPLUGIN3:"):
            self.kernels.pop(key, None)            # (always through a new load)
        if key not in self.kernels:
            qv = [np.array(q, float)] if not isinstance(q[0], (list, tuple)) else [np.array(q[0], float), np.array(q[1], float)]
            # the kernel is made from the caller's own buffers, which the caller then reuses for something else:
            # the kernel stays bound to the q values it was made for
            buffers = [a.copy() for a in qv]
            kernel = self.model(name).make_kernel(buffers)
            if self.reuse_buffers:              # (not in the fresh-process oracle)
                for b in buffers:
                    b *= 1.7
                    b += 0.013
            self.kernels[key] = (kernel, qv)
        return self.kernels[key]


def to_bytes(res):
    parts = []
    if isinstance(res, tuple):
        for r in res:
            parts.append(b"N" if r is None else np.ascontiguousarray(np.asarray(r, np.float64)).tobytes())
    else:
        parts.append(np.ascontiguousarray(np.asarray(res, np.float64)).tobytes())
    return b"|".join(parts).hex()


def evaluate(state, req, snapshots=None, keep=None):
    """Execute the request through its interface; returns hex bytes.  *snapshots* collects
    (label, before, after) for every caller-supplied container."""
    from sasmodels import direct_model, data as sdata, sasview_model
    name, via = req["model"], req["via"]
    pars = copy.deepcopy(req["pars"])
    before = copy.deepcopy(pars)
    q = req["q"]
    if via in ("call_kernel", "call_Fq"):
        kernel, qv = state.kernel(name, q)
        qbefore = [a.copy() for a in qv]
        if via == "call_kernel":
            res = direct_model.call_kernel(kernel, pars, cutoff=req["cutoff"], mono=bool(req.get("mono")))
        else:
            res = direct_model.call_Fq(kernel, pars, cutoff=req["cutoff"], mono=bool(req.get("mono")))
        if snapshots is not None:
            snapshots.append(("q vectors", [a.tolist() for a in qbefore], [a.tolist() for a in qv]))
    elif via == "direct":
        key = (name, json.dumps(q), req.get("dq"), req.get("dxl"))
        if key not in state.direct:
            qa = np.array(q, float)
            if req.get("dxl") is not None:
                d = sdata.empty_data1D(qa, resolution=0.0)
                d.dx = None
                d.dxl = np.full(len(qa), float(req["dxl"]))
                d.dxw = np.zeros(len(qa))
            else:
                d = sdata.empty_data1D(qa, resolution=float(req.get("dq") or 0.0))
            state.direct[key] = direct_model.DirectModel(d, state.model(name), cutoff=req["cutoff"])
        res = state.direct[key](**pars)
    elif via in ("keyword2d", "keyword1d", "direct2d"):
        # the caller's arrays live as long as the process state, like a user's data would
        key = ("arrays", via, name, json.dumps(q))
        if key not in state.arrays:
            if via == "keyword1d":
                state.arrays[key] = [np.array(q, float), np.array(req["dqa"], float)]
            else:
                state.arrays[key] = [np.array(q[0], float), np.array(q[1], float), np.array(req["dqx"], float),
                                     np.array(req["dqy"], float)]
        arrs = state.arrays[key]
        a_before = [a.copy() for a in arrs]
        if via == "keyword2d":
            res = direct_model.Iqxy(name, arrs[0], arrs[1], dqx=arrs[2], dqy=arrs[3], **pars)
        elif via == "keyword1d":
            res = direct_model.Iq(name, arrs[0], dq=arrs[1], **pars)
        else:
            d2 = sdata.Data2D(x=arrs[0], y=arrs[1], dx=arrs[2], dy=arrs[3])
            res = direct_model.DirectModel(d2, state.model(name), cutoff=req["cutoff"])(**pars)
        if snapshots is not None:
            snapshots.append(("caller's coordinate and resolution arrays", [a.tolist() for a in a_before],
                              [a.tolist() for a in arrs]))
    elif via == "sasview":
        if name not in state.sasview:
            if name == "PLUGIN":
                Model = sasview_model.load_custom_model(plugin_path())
            elif name == "PLUGIN2":
                Model = sasview_model.load_custom_model(plugin2_path())
            elif name == "CPLUGIN":
                Model = sasview_model.load_custom_model(cplugin_path())
            elif "@" in name:
                pn_, sn_ = name.split("@")
                Model = lambda: sasview_model.MultiplicationModel(sasview_model._make_standard_model(pn_)(),
                                                                   sasview_model._make_standard_model(sn_)())
            else:
                Model = sasview_model._make_standard_model(name)
            state.sasview[name] = Model()
        m = state.sasview[name]
        # reset every parameter of the wrapper, then apply the request
        for p in m._model_info.parameters.call_parameters:
            if p.name in m.params:
                m.setParam(p.name, p.default)
            if p.polydisperse:
                m.setParam(p.name + ".width", 0.0)
                m.setParam(p.name + ".npts", 35)
                m.setParam(p.name + ".nsigmas", 3.0)
                m.setParam(p.name + ".type", "gaussian")
        for k, v in pars.items():
            m.setParam(k, v)
        arr = req.get("array")
        if arr:
            from sasmodels import weights as sasweights
            # the caller's own arrays live as long as the process state, like a user's data would
            key = (name, arr["par"])
            if key not in state.arrays:
                state.arrays[key] = (np.array(arr["values"], float), np.array(arr["weights"], float))
            av, aw = state.arrays[key]
            a_before = (av.copy(), aw.copy())
            disp = sasweights.ArrayDispersion()
            disp.set_weights(av, aw)
            m.set_dispersion(arr["par"], disp)
        obj_before = (dict(m.params), copy.deepcopy(m.dispersion))
        if req.get("composition_first"):
            # the intermediate curves of a product are asked for first (what SasView does for its P(Q), S(Q) plots)
            m.calc_composition_models(np.array(q, float))
        if isinstance(q[0], (list, tuple)):
            qa = [np.array(q[0], float), np.array(q[1], float)]
            qb = [a.copy() for a in qa]
            res = m.evalDistribution(qa)
            if snapshots is not None:
                snapshots.append(("q vectors", [a.tolist() for a in qb], [a.tolist() for a in qa]))
        else:
            qa = np.array(q, float)
            qb = qa.copy()
            res = m.evalDistribution(qa)
            if snapshots is not None:
                snapshots.append(("q vector", qb.tolist(), qa.tolist()))
        if snapshots is not None:
            obj_after = (dict(m.params), copy.deepcopy(m.dispersion))
            snapshots.append(("parameter values and dispersity settings held by the model object",
                              [obj_before[0], {k_: {kk_: (vv_ if not isinstance(vv_, np.ndarray) else vv_.tolist()) for kk_, vv_ in v_.items()}
                                                for k_, v_ in obj_before[1].items()}],
                              [obj_after[0], {k_: {kk_: (vv_ if not isinstance(vv_, np.ndarray) else vv_.tolist()) for kk_, vv_ in v_.items()}
                                              for k_, v_ in obj_after[1].items()}]))
        if arr and snapshots is not None:
            snapshots.append(("caller's distribution arrays", [a_before[0].tolist(), a_before[1].tolist()],
                              [av.tolist(), aw.tolist()]))
    else:
        raise ValueError(via)
    if snapshots is not None:
        snapshots.append(("parameter dict", before, pars))
    if keep is not None:
        keep.append(res)
    return to_bytes(res)


# ---------------------------------------------------------------------------
# oracle: one fresh process per request
# ---------------------------------------------------------------------------

def fresh_eval(name, req, workdir, cache):
    env = dict(os.environ, SAS_DLL_PATH=cache, RTM_C11_DIR=workdir, VERIF_REPO=core.REPO,
               PYTHONPATH=core.REPO + os.pathsep + core.VERIF, SAS_OPENCL="none", PYTHONHASHSEED="0")
    r = subprocess.run([core.PY, "-m", "rtm.props.c11", "--fresh", json.dumps(req)], env=env, cwd=core.VERIF,
                       capture_output=True, text=True, timeout=600)
    for line in r.stdout.splitlines():
        if line.startswith("RTMBYTES "):
            return line.split()[1]
    return "ERROR exit=%s %s" % (r.returncode, (r.stderr or r.stdout)[-600:])


def build_table(reqs, workdir, repeats=1):
    cache = os.path.join(workdir, "oracle-cache")
    os.makedirs(cache, exist_ok=True)
    names = sorted(reqs)
    with ThreadPoolExecutor(16) as ex:
        futs = {(n, k): ex.submit(fresh_eval, n, reqs[n], workdir, cache) for n in names for k in range(repeats)}
    return {n: [futs[(n, k)].result() for k in range(repeats)] for n in names}


def gen_cases(tier, seed):
    reqs = requests()
    work = os.environ.get("RTM_SCRATCH") or tempfile.mkdtemp(prefix="c11-")
    table = build_table(reqs, work, repeats=2)
    nhist = 40 if tier == "quick" else 1500
    cases = [{"id": "oracle/agreement", "kind": "oracle", "table": table, "group": "oracle"}]
    flat = {n: v[0] for n, v in table.items()}
    for h in range(nhist):
        cases.append({"id": "hist/%04d" % h, "kind": "history", "h": h, "seed": seed, "table": flat,
                      "group": "h%d" % (h % 64), "cost": 1.0})
    for h in range(4 if tier == "quick" else 48):
        cases.append({"id": "asan/%04d" % h, "kind": "history", "h": 100000 + h, "seed": seed, "table": flat,
                      "group": "a%d" % (h % 8), "cost": 6.0, "lane": "asan"})
    return cases


# ---------------------------------------------------------------------------
# histories
# ---------------------------------------------------------------------------

def gen_history(rng, reqs, h):
    names = sorted(reqs)
    by_model = {}
    for n in names:
        by_model.setdefault(reqs[n]["model"], []).append(n)
    ops = []
    length = int(rng.integers(12, 41))
    focus = list(by_model)[h % len(by_model)]
    last = None
    while len(ops) < length:
        r = rng.random()
        if r < 0.55:
            # evaluation, biased to the focus model so that objects are shared
            pool = by_model[focus] if rng.random() < 0.6 else names
            n = pool[int(rng.integers(len(pool)))]
            ops.append(["eval", n])
            if rng.random() < 0.25:
                ops.append(["eval", n])          # repeated identical call
            last = n
        elif r < 0.65 and last:
            # toggle: the mono / dispersed / magnetic variants of the same model back to back
            m = reqs[last]["model"]
            for n in rng.permutation(by_model[m])[:3]:
                ops.append(["eval", str(n)])
        elif r < 0.72:
            ops.append(["release_kernel", focus])
        elif r < 0.78:
            ops.append(["release_model", focus])
        elif r < 0.84:
            ops.append(["reload", focus])
        elif r < 0.90:
            ops.append(["clone", names[int(rng.integers(len(names)))]])
        else:
            focus = list(by_model)[int(rng.integers(len(by_model)))]
    # constructive coverage: big mesh then small mesh on one kernel; edge meshes after a normal call
    ops += [["eval", "cylinder/pd165"], ["eval", "cylinder/pd9"], ["eval", "cylinder/mono3"],
            ["eval", "sphere/pd35"], ["eval", "sphere/empty"], ["eval", "sphere/onepoint"], ["eval", "sphere/mono3"],
            ["eval", "cplug/pd"], ["eval", "cplug/empty"], ["eval", "cplug/mono"], ["eval", "cplug/empty2"],
            ["clone_perturb", "cylinder/sasview-pd"], ["clone_perturb", "sphere/sasview"],
            ["eval", "sph@sw/pd-mode1"], ["eval", "sph@sw/pd-mode0"], ["eval", "sph@sw/pd-mode1-beta"],
            ["eval", "sph@sw/pd-mode0"], ["eval", "sph+cyl/pd"], ["eval", "sph+cyl/pd-A6"], ["eval", "sph+cyl/pd-B5"],
            ["eval", "sph+cyl/pd"], ["eval", "sph+cyl/mono"]]
    # q inputs that share one axis / their first point with the previous request of the same length on the same
    # model object, through both the kernel and the SasView interface; R_eff requested and then not requested
    ops += [["release_kernel", "sphere"], ["eval", "sphere/2d"], ["eval", "sphere/2d-samex"], ["eval", "sphere/2d-samey"],
            ["eval", "sphere/2d"], ["eval", "sphere/mono3"], ["eval", "sphere/mono3b"],
            ["eval", "sphere/sasview2d"], ["eval", "sphere/sasview2d-samex"], ["eval", "sphere/sasview"],
            ["eval", "sphere/sasview3b"], ["eval", "sphere/Fq"], ["eval", "sphere/Fq0"],
            ["eval", "cylinder/Fq3pd"], ["eval", "cylinder/Fq0pd"], ["eval", "cylinder/Fq1"], ["eval", "cylinder/Fq0"],
            ["eval", "hc/Fq2"], ["eval", "hc/Fq0"], ["eval", "py/Fq1"], ["eval", "py/Fq"]]
    ops += [["other_size", "cylinder"], ["eval", "cylinder/mono3"], ["eval", "cylinder/pd9"], ["eval", "cylinder/sasview-mono"]]
    # a request, an empty-mesh request, and the first request again on one kernel object (python and compiled)
    ops += [["eval", "py/pd"], ["eval", "py/empty"], ["eval", "py/pd"], ["eval", "py/mono"], ["eval", "py/empty"],
            ["eval", "py/mono"], ["eval", "sphere/pd35"], ["eval", "sphere/empty"], ["eval", "sphere/pd35"],
            ["eval", "cplug/pd"], ["eval", "cplug/empty"], ["eval", "cplug/pd"]]
    # two plugin files with the same base name (same model id) and different formulas, through both interfaces;
    # empirical distributions whose arrays belong to the caller, evaluated repeatedly
    ops += [["eval", "py/sasview"], ["eval", "py2/sasview"], ["eval", "py/sasview"], ["eval", "py2/mono"], ["eval", "py/mono"],
            ["eval", "cplug/sasview"], ["eval", "sphere/sasview-array"], ["eval", "sphere/sasview-array"],
            ["eval", "sphere/sasview"], ["eval", "sphere/sasview-array"], ["eval", "cylinder/sasview-array"],
            ["eval", "cylinder/sasview-array"]]
    ops += [["redisperse", "sphere/sasview-rect"], ["eval", "sphere/sasview"]]
    ops += [["eval", "cplug3/A"], ["eval", "cplug3/B"], ["eval", "cplug3/A"], ["eval", "cplug3/B"]]
    ops += [["eval", "sphere/pd35"], ["eval", "sphere/pd35-mono"], ["eval", "sphere/pd35"], ["eval", "cylinder/pd165-mono"],
            ["eval", "cylinder/pd165"], ["eval", "cylinder/Fq3pd-mono"], ["eval", "cylinder/Fq3pd"]]
    ops += [["eval", "sphere/pd-r50"], ["eval", "sphere/pd-r50eps"], ["eval", "sphere/pd-w01eps"], ["eval", "sphere/pd-r50"],
            ["eval", "sphere/sasview-r50"], ["eval", "sphere/sasview-r50eps"], ["eval", "sphere/sasview-r50"]]
    ops += [["eval", "sph@hs/sasview-mode1"], ["eval", "sph@hs/sasview-mode1-parts"], ["eval", "sph@hs/sasview-mode0"],
            ["eval", "sph@hs/sasview-mode1-parts"], ["eval", "sph@hs/sasview-mode1"]]
    # someone in this process evaluates a model in single precision in between (sascomp -single!); requests whose
    # answers are subnormal doubles before and after it; the keyword helpers with the caller's own arrays
    ops += [["eval", "guinier/subnormal"], ["other_precision", ["sphere", "guinier", "cylinder"][h % 3]], ["eval", "guinier/subnormal"],
            ["eval", "sphere/tiny-scale"], ["eval", "sphere/Iqxy-res"], ["eval", "sphere/Iqxy-res"], ["eval", "cylinder/Iqxy-res"],
            ["eval", "sphere/Iq-res"], ["eval", "sphere/direct2d-res"], ["eval", "sphere/direct2d-res"]]
    # magnetic requests on the kernel object of a sum of models, repeated and interleaved with non-magnetic ones
    ops += [["eval", "sph+cyl/mag2d"], ["eval", "sph+cyl/mag2d"], ["eval", "sph+cyl/2d"], ["eval", "sph+cyl/mag2d-B"],
            ["eval", "sph+cyl/mag2d"], ["eval", "sph+cyl/mag2d-B"]]
    # products with different form factors built, evaluated once and dropped, several times over
    ops += [["churn", ""], ["eval", "cyl@hs/mode0"], ["eval", "sph@hs/ck"]]
    if h % 2:
        ops += [["release_kernel", "cylinder"], ["eval", "cylinder/2d-samex"], ["eval", "cylinder/2d"],
                ["eval", "cylinder/2d-samey"], ["release_model", "PLUGIN"], ["eval", "py/2d"], ["eval", "py/2d-samex"]]
    if h % 2:
        ops += [["eval", "cylinder/2djit"], ["eval", "cylinder/mag2d"], ["eval", "cylinder/2d"],
                ["release_kernel", "cylinder"], ["eval", "cylinder/2d"]]
    else:
        ops += [["eval", "py/empty"], ["eval", "py/pd"], ["eval", "py/empty"], ["eval", "py/onepoint"], ["eval", "py/pd-other"], ["eval", "py/mono"], ["release_model", "PLUGIN"],
                ["eval", "py/mono"], ["reload", "sphere"], ["eval", "sphere/mono3"], ["clone", "cylinder/sasview-pd"]]
    return ops


def run_history(case, rec):
    from rtm import sas
    sas.install_poison()
    reqs = requests()
    table = case["table"]
    rng = core.rng_for(case["seed"], PROP, "hist", case["h"])
    ops = gen_history(rng, reqs, case["h"])
    st = State()
    st.reuse_buffers = True
    evaluated, shared = [], 0
    after_release = False
    prev = None
    seen_kernel = {}
    held = []
    lane_asan = os.environ.get("RTM_LANE") == "asan"
    rec.bucket("lane:" + ("asan" if lane_asan else "plain"))
    for step, (op, arg) in enumerate(ops):
        rec.bucket("op:" + ("call_kernel" if op == "eval" and reqs[arg]["via"] == "call_kernel" else
                            "call_Fq" if op == "eval" and reqs[arg]["via"] == "call_Fq" else
                            reqs[arg]["via"] if op == "eval" else op))
        if op == "churn":
            import gc
            for round_ in range(4):
                for n_ in ("cyl@hs/mode0", "sph@hs/ck", "css@hs/ck", "cyl@hs/mode2beta"):
                    tmp = State()
                    got_ = evaluate(tmp, reqs[n_])
                    exp_ = evaluate(State(), reqs[n_]) if lane_asan else table[n_]
                    okc = (got_ == exp_)
                    rec.check("same_bytes_as_fresh_process", okc,
                              None if okc else {"step": step, "request": n_, "history": "products with other form factors built, "
                                                "evaluated and dropped before (round %d)" % round_, "got": _floats(got_),
                                                "fresh": _floats(exp_)}, key=_key(reqs[n_]))
                    del tmp
                    gc.collect()
            continue
        if op == "eval":
            req = reqs[arg]
            snaps = []
            kept = []
            got = evaluate(st, req, snaps, kept)
            # results handed out earlier stay what they were when returned (no aliasing of internal buffers)
            for hstep, harg, hres, hbytes in held[-6:]:
                now = to_bytes(hres)
                rec.check("earlier_results_not_overwritten", now == hbytes,
                          None if now == hbytes else {"step": step, "request": arg, "earlier_step": hstep,
                                                      "earlier_request": harg, "was": _floats(hbytes), "now": _floats(now)})
            if kept:
                held.append((step, arg, kept[0], got))
            exp = table[arg]
            if lane_asan:
                # the sanitizer build uses another compiler, so the fresh-process table (bit patterns of the normal
                # build) does not apply; the reference is the same request on fresh objects in this process
                exp = evaluate(State(), req)
            ok = (got == exp)
            rec.check("same_bytes_as_fresh_process", ok,
                      None if ok else {"step": step, "request": arg, "history": ops[:step + 1][-12:],
                                       "got": _floats(got), "fresh": _floats(exp)},
                      key=_key(req))
            rec.check("no_stale_result", not _poisoned(got), {"step": step, "request": arg, "got": _floats(got)},
                      key=_key(req))
            for label, b, a in snaps:
                same = _same(b, a)
                rec.check("inputs_unchanged", same,
                          None if same else {"step": step, "request": arg, "what": label, "before": b, "after": a},
                          key="C11/call_Fq-pops-radius_effective_mode" if (label == "parameter dict" and
                                                                           req["via"] == "call_Fq") else None)
            kkey = (req["model"], json.dumps(req["q"]))
            if req["via"] in ("call_kernel", "call_Fq"):
                if kkey in seen_kernel and seen_kernel[kkey] != arg:
                    shared += 1
                    rec.bucket("shared_kernel_interleaving")
                seen_kernel[kkey] = arg
            if prev == arg:
                rec.bucket("repeat_identical")
            if prev and reqs[prev]["model"] == req["model"]:
                a, b = reqs[prev]["pars"], req["pars"]
                if any(k.endswith("_pd_n") for k in a) != any(k.endswith("_pd_n") for k in b):
                    rec.bucket("toggle:dispersity")
                if any(k.endswith("_M0") for k in a) != any(k.endswith("_M0") for k in b):
                    rec.bucket("toggle:magnetic")
            if prev and reqs[prev]["model"] == req["model"] and reqs[prev]["q"] != req["q"]:
                qa, qb = reqs[prev]["q"], req["q"]
                if isinstance(qa[0], (list, tuple)) and isinstance(qb[0], (list, tuple)) and \
                        (list(qa[0]) == list(qb[0]) or list(qa[1]) == list(qb[1])):
                    rec.bucket("q_shares_one_axis_with_previous")
                if not isinstance(qa[0], (list, tuple)) and not isinstance(qb[0], (list, tuple)) and \
                        len(qa) == len(qb) and qa[0] == qb[0]:
                    rec.bucket("q_shares_first_point_with_previous")
            if prev and req["via"] == "call_Fq" and reqs[prev]["via"] == "call_Fq" and kkey == (reqs[prev]["model"], json.dumps(reqs[prev]["q"])) \
                    and reqs[prev]["pars"].get("radius_effective_mode", 1) and not req["pars"].get("radius_effective_mode", 1):
                rec.bucket("reff_mode_on_then_off")
            if prev == "cylinder/pd165" and arg == "cylinder/pd9":
                rec.bucket("big_then_small")
            if req.get("tag") == "edge":
                rec.bucket("empty_or_one_point_mesh")
            if req["model"] == "PLUGIN":
                rec.bucket("python_model")
            if any(c in req["model"] for c in "@+*"):
                rec.bucket("composite_model")
            evaluated.append(arg)
            prev = arg
        elif op == "release_kernel":
            for key in [k for k in st.kernels if k[0] == arg]:
                st.kernels.pop(key)[0].release()
            after_release = True
        elif op == "release_model":
            for key in [k for k in st.kernels if k[0] == arg]:
                st.kernels.pop(key)[0].release()
            for key in [k for k in st.direct if k[0] == arg]:
                st.direct.pop(key)
            if arg in st.models:
                try:
                    st.models.pop(arg).release()
                except Exception:
                    pass
            after_release = True
        elif op == "reload":
            for key in [k for k in st.kernels if k[0] == arg]:
                st.kernels.pop(key)
            for key in [k for k in st.direct if k[0] == arg]:
                st.direct.pop(key)
            st.models.pop(arg, None)
            st.model(arg)
            after_release = True
        elif op == "other_size":
            # someone in this process evaluates the model with another integration size (compare's -ngauss option)
            from sasmodels import core as sascore, generate, direct_model
            info_ = sascore.load_model_info(arg)
            generate.set_integration_size(info_, 20)
            m_ = sascore.build_model(info_, dtype="double", platform="dll")
            direct_model.call_kernel(m_.make_kernel([np.array([0.02, 0.2])]), {})
            for key in [k for k in st.kernels if k[0] == arg]:
                st.kernels.pop(key)
            st.models.pop(arg, None)
            st.direct = {k: v for k, v in st.direct.items() if k[0] != arg}
            st.sasview.pop(arg, None)
            after_release = True
        elif op == "redisperse":
            # on the object that has just been evaluated, only the distribution object of one parameter is replaced
            # (set_dispersion is the last thing done to the object) and the same q is evaluated again
            from sasmodels import weights as sasweights
            req = reqs[arg]
            got0 = evaluate(st, reqs["sphere/sasview"])
            m = st.sasview[req["model"]]
            disp = sasweights.RectangleDispersion(int(req["pars"]["radius.npts"]), float(req["pars"]["radius.width"]),
                                                  float(req["pars"]["radius.nsigmas"]))
            m.set_dispersion("radius", disp)
            got1 = to_bytes(m.evalDistribution(np.array(req["q"], float)))
            rec.check("same_bytes_as_fresh_process", got0 == table["sphere/sasview"] and got1 == table[arg],
                      {"step": step, "request": arg, "op": "set_dispersion with another distribution object, then the same q again",
                       "before": _floats(got0), "after_set_dispersion": _floats(got1), "fresh": _floats(table[arg])})
        elif op == "other_precision":
            from sasmodels import core as sascore, direct_model
            m_ = sascore.load_model(arg, dtype="single", platform="dll")
            k_ = m_.make_kernel([np.array([0.02, 0.2])])
            direct_model.call_kernel(k_, {})
            k_.release()
            after_release = True
        elif op == "clone":
            req = reqs[arg]
            if req["model"] in st.sasview:
                st.sasview[req["model"]] = st.sasview[req["model"]].clone()
        elif op == "clone_perturb":
            # evaluate on the original, perturb and evaluate a clone, then the original again untouched
            req = reqs[arg]
            got0 = evaluate(st, req)
            m = st.sasview[req["model"]]
            c = m.clone()
            for p in c._model_info.parameters.call_parameters:
                if p.name in c.params and p.name not in ("scale", "background") and np.isfinite(p.default):
                    c.setParam(p.name, c.getParam(p.name)*1.37 + 0.5)
                if p.polydisperse:
                    c.setParam(p.name + ".width", 0.33)
                    c.setParam(p.name + ".npts", 5)
            qa = np.array(req["q"], float)
            gotc = to_bytes(c.evalDistribution(qa.copy()))
            got1 = to_bytes(m.evalDistribution(qa.copy()))
            rec.check("same_bytes_as_fresh_process", got0 == table[arg] and got1 == table[arg],
                      {"step": step, "request": arg, "op": "clone_perturb", "before_clone": _floats(got0),
                       "after_clone_was_perturbed": _floats(got1), "fresh": _floats(table[arg])})
            rec.check("clone_is_independent", gotc != got1, {"request": arg, "clone": _floats(gotc)})
            rec.bucket("op:clone")
    rec.set_shape(ops, nontrivial=(shared > 0 or after_release) and len(set(evaluated)) >= 2)
    rec.count("evaluations_compared", len(evaluated))
    rec.count("poison_armed", sas.poison_count())
    if case["h"] < 2:
        rec.observe(history=ops[:25], evaluated=len(evaluated), distinct_requests=len(set(evaluated)))


def run_oracle(case, rec):
    bad = {}
    for n, vals in case["table"].items():
        ok = (len(set(vals)) == 1 and not vals[0].startswith("ERROR"))
        rec.check("fresh_processes_agree", ok, {"request": n, "values": [v[:200] for v in vals]})
    rec.set_shape(("oracle", sorted(case["table"])), True)
    rec.observe(requests=len(case["table"]), sample={n: _floats(v[0]) for n, v in list(case["table"].items())[:3]})


def _floats(hexs):
    if hexs.startswith("ERROR"):
        return hexs[:300]
    out = []
    for part in bytes.fromhex(hexs).split(b"|") if "7c" in hexs else [bytes.fromhex(hexs)]:
        try:
            out.append(np.frombuffer(part, np.float64).tolist() if len(part) % 8 == 0 else part.decode("latin1"))
        except Exception:
            out.append(repr(part[:16]))
    return out


def _poisoned(hexs):
    return "efbe0000adde f87f".replace(" ", "") in hexs


def _same(a, b):
    try:
        return json.dumps(core.jsonable(a), sort_keys=True) == json.dumps(core.jsonable(b), sort_keys=True)
    except Exception:
        return False


def _key(req):
    return None


def run_case(case, rec):
    if case["kind"] == "oracle":
        run_oracle(case, rec)
    else:
        run_history(case, rec)


def classify(case, v):
    return v.get("key")


LEVEL_TEXT = ("History + executable model: a table request -> bytes produced by fresh processes is the sequential model; "
              "random operation histories (<= 40 operations, 9 models sharing one process, kernels shared between "
              "requests, releases, reloads, clones) are executed and every evaluation must reproduce the table entry bit "
              "for bit, with poisoned result buffers and before/after snapshots of every caller-supplied dict/array.  "
              "Exploration over sampled histories.")
LEVEL_NOTE = "Trusts that 'first call in a fresh process' is history-free; only the DLL and Python back ends exist here."
TECHNIQUE = "history checker against a fresh-process oracle table (bit-identity) + poison monitor + input snapshots"


if __name__ == "__main__":
    if len(sys.argv) > 2 and sys.argv[1] == "--fresh":
        core.setup_paths()
        req = json.loads(sys.argv[2])
        print("RTMBYTES " + evaluate(State(), req))
