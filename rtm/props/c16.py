"""
C16 - a reparameterised model equals its base model at the translated parameters.

Generated reparameterisations (affine and power-law maps, intermediate
variables, ?: expressions, insert_after placements) are built with the real
core.reparameterize; the oracle is the separately built base model (and the
raw library of the base model for dispersity meshes) at parameters translated
by a numpy rendering of the same translation structure.
"""
from __future__ import annotations

import itertools
import math
import os

import numpy as np

from rtm import core, sas

PROP = "C16"
LEVEL = "exploration"
RULE = ("Base models (sphere, cylinder, ellipsoid, core_shell_sphere, hollow_cylinder, barbell, capped_cylinder, "
        "parallelepiped, pearl_necklace, vesicle, fractal, lamellar) x translation templates (affine, power law with "
        "intermediate variables, mixed affine pair, ?: ordering, three-parameter chain) with random coefficients x "
        "placements (in place, insert_after at the start, after an untouched parameter, after the last angle; invalid "
        "placements must raise) x random new-parameter values x dispersity meshes on new parameters (including meshes "
        "that cross the base model's validity boundary) x 1-D/2-D.  Distinct: hash of (base, template, placement, dim, "
        "dispersed new parameters).  Non-trivial: at least one base parameter is replaced.")
ASSUMPTIONS = ["the translation structure is rendered twice by the harness: C text for reparameterize, numpy for the oracle",
               "the base model alone (call_kernel/call_Fq) and its raw library are the reference (C01 covers them)"]
REQUIRED_MONITORS = ["equals_base_at_translated", "Fq_equals_base_at_translated", "dispersity_is_weighted_mean_of_base",
                     "untouched_parameters_preserved", "invalid_placement_refused"]
REQUIRED_BUCKETS = {"quick": ["tpl:boundary", "tpl:affine", "tpl:power", "tpl:pair", "tpl:ternary", "tpl:chain3", "tpl:divide", "tpl:offset", "place:default",
                              "place:start", "place:after-untouched", "place:after-angle", "dim:1d", "dim:2d",
                              "pd:feeds-intermediate", "validity-boundary-crossed", "lane:asan", "new-parameters:untyped",
                              "new-parameters:untyped-and-no-volume-parameter-left", "same-name-second-definition", "new-parameter-keeps-base-name",
                              "same-source-other-defaults", "magnetic", "pd:mesh>100", "pd:amplitude-entry",
                              "translation-helper-in-extra-source-file", "translation-helper-in-extra-source-file:hollow-base",
                              "base-is-plugin-file:base-first", "base-is-plugin-file:reparameterised-first", "base-plugin-revision:2",
                              "pd:three-loops-mesh>100", "magnetic:on-translated-sld", "translation-without-new-parameters"]}
REQUIRED_BUCKETS["thorough"] = REQUIRED_BUCKETS["quick"]

BASES = ["sphere", "cylinder", "ellipsoid", "core_shell_sphere", "hollow_cylinder", "barbell", "capped_cylinder",
         "parallelepiped", "pearl_necklace", "vesicle", "fractal", "lamellar"]
TEMPLATES = ["affine", "power", "pair", "ternary", "chain3", "divide", "offset"]


def strip_outer(txt):
    """(a + b) * (c + d) written without the redundant outer parentheses the renderer adds"""
    if txt.startswith("(") and txt.endswith(")"):
        depth = 0
        for k_, ch in enumerate(txt):
            depth += ch == "("
            depth -= ch == ")"
            if depth == 0 and k_ < len(txt) - 1:
                return txt
        return txt[1:-1]
    return txt


def worker_init(tier, seed):
    sas.install_poison()


def gen_cases(tier, seed):
    n = 36 if tier == "quick" else 600
    cases = []
    for k in range(n):
        cases.append({"id": "r/%04d" % k, "k": k, "seed": seed, "base": BASES[k % len(BASES)],
                      "tpl": TEMPLATES[(k // len(BASES) + k) % len(TEMPLATES)], "group": "g%d" % (k % 48), "lane": "plain"})
    for j, b in enumerate(["barbell", "capped_cylinder", "pearl_necklace"]*(1 if tier == "quick" else 10)):
        cases.append({"id": "boundary/%03d" % j, "k": 3000 + j, "seed": seed, "base": b, "tpl": "boundary",
                      "group": "b%d" % j, "lane": "plain"})
    # the base model is itself a plugin file and the reparameterisation is a second plugin file naming it; the base file is
    # revised between loads
    for k in range(3 if tier == "quick" else 24):
        cases.append({"id": "plugin-base/%03d" % k, "kind": "plugin", "k": 7000 + k, "seed": seed, "base": "plugin", "tpl": "plugin",
                      "group": "pb%d" % k, "lane": "plain", "cost": 2})
    for k in range(8 if tier == "quick" else 40):
        cases.append({"id": "constraint/%03d" % k, "kind": "constraint", "k": k, "seed": seed, "base": "constraint", "tpl": "constraint",
                      "group": "cn%d" % k, "lane": "plain", "cost": 2})
    for k in range(8 if tier == "quick" else 48):
        cases.append({"id": "vector/%03d" % k, "kind": "vector", "k": k, "seed": seed, "base": "vector", "tpl": "vector",
                      "group": "vc%d" % k, "lane": "plain", "cost": 2})
    for k in range(4 if tier == "quick" else 40):
        cases.append({"id": "sldmag/%03d" % k, "kind": "sldmag", "k": 8000 + k, "seed": seed, "base": "sldmag", "tpl": "sldmag",
                      "group": "sm%d" % k, "lane": "plain", "cost": 2})
    for k in range(4 if tier == "quick" else 30):
        cases.append({"id": "asan/%04d" % k, "k": 5000 + k, "seed": seed, "base": ["cylinder", "barbell", "ellipsoid", "hollow_cylinder"][k % 4],
                      "tpl": TEMPLATES[k % len(TEMPLATES)], "group": "a%d" % (k % 4), "lane": "asan", "cost": 4})
    return cases


# ---------------------------------------------------------------------------
# translation structures: list of (lhs, expr) with expr a tiny AST rendered twice
# ---------------------------------------------------------------------------

def C(e):
    op = e[0]
    if op == "v":
        return e[1]
    if op == "k":
        return repr(float(e[1]))
    if op in "+-*/":
        return "(%s %s %s)" % (C(e[1]), op, C(e[2]))
    if op == "f":
        return "%s(%s)" % (e[1], ", ".join(C(a) for a in e[2:]))
    if op == "?":
        return "(%s > %s ? %s : %s)" % (C(e[1]), C(e[2]), C(e[3]), C(e[4]))
    raise ValueError(op)


def PY(e, env):
    op = e[0]
    if op == "v":
        return env[e[1]]
    if op == "k":
        return float(e[1])
    if op == "+":
        return PY(e[1], env) + PY(e[2], env)
    if op == "-":
        return PY(e[1], env) - PY(e[2], env)
    if op == "*":
        return PY(e[1], env)*PY(e[2], env)
    if op == "/":
        return PY(e[1], env)/PY(e[2], env)
    if op == "f":
        fn = {"sqrt": math.sqrt, "cbrt": lambda x: math.copysign(abs(x)**(1.0/3.0), x), "pow": math.pow,
              "fabs": abs}[e[1]]
        return fn(*[PY(a, env) for a in e[2:]])
    if op == "?":
        return PY(e[3], env) if PY(e[1], env) > PY(e[2], env) else PY(e[4], env)
    raise ValueError(op)


def v(n): return ("v", n)
def k_(x): return ("k", x)


def build_translation(info, tpl, rng, pars0, keep_name=False):
    """Returns (new parameter definitions, statements [(lhs, ast)], replaced base names, new default values)."""
    vol = [p for p in info.parameters.kernel_parameters if p.type == "volume" and p.length == 1]
    names = [p.name for p in vol]
    if tpl in ("pair", "ternary", "power") and len(vol) < 2:
        tpl = "affine"
    if tpl == "divide" and len(vol) < 1:
        tpl = "affine"
    if tpl == "chain3" and len(vol) < 3:
        tpl = "pair" if len(vol) >= 2 else "affine"
    order = list(rng.permutation(len(vol)))
    a = vol[order[0]]
    b = vol[order[1]] if len(vol) > 1 else None
    c = vol[order[2]] if len(vol) > 2 else None
    va, vb, vc = pars0[a.name], (pars0[b.name] if b else None), (pars0[c.name] if c else None)
    inf = float("inf")
    pairs = {"barbell": ("radius_bell", "radius"), "capped_cylinder": ("radius_cap", "radius"),
             "pearl_necklace": ("radius", "thick_string")}
    if tpl == "boundary" and info.id in pairs:
        big, small = pairs[info.id]
        new = [["ratio_new", "", 1.03, [0, inf], "volume", "big:small ratio"]]
        st = [(big, ("*", v("ratio_new"), v(small)))]
        return tpl, new, st, [big], []
    if tpl == "boundary":
        tpl = "affine"
    if tpl == "affine":
        al, be = float(rng.uniform(0.5, 2.0)), float(rng.uniform(0.0, 0.3))*va
        # every third affine case keeps the base parameter's name for its replacement (radius = 2*radius + 3)
        nm = a.name if keep_name else "u_new"
        new = [[nm, "Ang", (va - be)/al, [0, inf], "volume", "new u"]]
        st = [(a.name, ("+", ("*", k_(al), v(nm)), k_(be)))]
        repl, feeds = [a.name], []
    elif tpl == "power":
        # t = cbrt(vol/ecc/K); a = ecc*t; b = t
        K = float(rng.uniform(1.0, 5.0))
        ecc = va/vb
        volu = K*ecc*vb**3
        new = [["vol_new", "Ang^3", volu, [0, inf], "volume", "new volume"],
               ["ecc_new", "", ecc, [0, inf], "volume", "new ratio"]]
        st = [("t_mid", ("f", "cbrt", ("/", ("/", v("vol_new"), v("ecc_new")), k_(K)))),
              (a.name, ("*", v("ecc_new"), v("t_mid"))), (b.name, v("t_mid"))]
        repl, feeds = [a.name, b.name], ["vol_new", "ecc_new"]
    elif tpl == "pair":
        g, d = float(rng.uniform(0.2, 0.8)), float(rng.uniform(1.2, 2.5))
        # a = u + w ; b = g*u + d*w  -> choose u, w from va, vb
        det = d - g
        w = (vb - g*va)/det
        u = va - w
        if u <= 0 or w <= 0:
            u, w = 0.6*va, 0.4*va
        new = [["u_new", "Ang", u, [0, inf], "volume", "new u"], ["w_new", "Ang", w, [0, inf], "volume", "new w"]]
        st = [(a.name, ("+", v("u_new"), v("w_new"))),
              (b.name, ("+", ("*", k_(g), v("u_new")), ("*", k_(d), v("w_new"))))]
        repl, feeds = [a.name, b.name], []
    elif tpl == "ternary":
        new = [["u_new", "Ang", max(va, vb), [0, inf], "volume", "new u"],
               ["w_new", "Ang", min(va, vb), [0, inf], "volume", "new w"]]
        big, small = (a, b) if va >= vb else (b, a)
        st = [(big.name, ("?", v("u_new"), v("w_new"), v("u_new"), v("w_new"))),
              (small.name, ("?", v("u_new"), v("w_new"), v("w_new"), v("u_new")))]
        repl, feeds = [a.name, b.name], []
    elif tpl == "offset":
        # a new parameter that is an offset around a fixed reference: it may be negative and says so in its limits
        ref = va*float(rng.uniform(1.05, 1.4))
        new = [["delta_new", "Ang", va - ref, [-0.9*ref, 0.9*ref], "volume", "offset from the reference size"]]
        st = [(a.name, ("+", k_(ref), v("delta_new")))]
        repl, feeds = [a.name], []
    elif tpl == "divide":
        # an intermediate that is a product of two groups, used once, as a divisor
        W0 = float(rng.uniform(0.5, 2.0))*va
        u, w = 0.6*va, 0.4*va
        K2 = va*(u + w)*(1.0 + w/W0)
        new = [["u_new", "Ang", u, [0, inf], "volume", "new u"], ["w_new", "Ang", w, [0, inf], "volume", "new w"]]
        st = [("t_den", ("*", ("+", v("u_new"), v("w_new")), ("+", k_(1.0), ("/", v("w_new"), k_(W0))))),
              (a.name, ("/", k_(K2), v("t_den")))]
        repl, feeds = [a.name], ["u_new", "w_new"]
    else:  # chain3
        kap = float(rng.uniform(0.5, 2.0))
        # t1 = u*w ; t2 = sqrt(t1) ; a = t2 ; b = u + z ; c = kap*w/z*z0  (dimension handled by constants)
        u = va*float(rng.uniform(0.5, 2.0))
        w = va*va/u
        z = max(vb - u, 0.1*vb) if vb > u else 0.5*vb
        if vb <= u:
            u = 0.5*vb
            w = va*va/u
            z = vb - u
        cz = vc*z/(kap*w)
        new = [["u_new", "Ang", u, [0, inf], "volume", ""], ["w_new", "Ang", w, [0, inf], "volume", ""],
               ["z_new", "Ang", z, [0, inf], "volume", ""]]
        st = [("t_one", ("*", v("u_new"), v("w_new"))), ("t_two", ("f", "sqrt", v("t_one"))),
              (a.name, v("t_two")), (b.name, ("+", v("u_new"), v("z_new"))),
              (c.name, ("/", ("*", k_(kap*cz), v("w_new")), v("z_new")))]
        repl, feeds = [a.name, b.name, c.name], ["u_new", "w_new"]
    return tpl, new, st, repl, feeds


INTER_NAMES = {"shell", "form", "mode", "qab", "F1", "weight", "F2", "pd_norm"}


def _is_inter(lhs):
    return lhs.startswith("t_") or lhs in INTER_NAMES


def translate(st, newvals, basevals):
    env = dict(basevals)
    env.update(newvals)
    out = dict(basevals)
    for lhs, ast in st:
        val = PY(ast, env)
        env[lhs] = val
        if lhs in basevals or lhs in out:
            out[lhs] = val
        elif not _is_inter(lhs):
            out[lhs] = val
    return {k2: v2 for k2, v2 in out.items()}, env


CONSTRAINTS = [("ellipsoid", "radius_equatorial = 1.5*radius_polar", {"radius_equatorial": lambda v: 1.5*v["radius_polar"]}),
               ("hollow_cylinder", "thickness = 0.25*radius", {"thickness": lambda v: 0.25*v["radius"]}),
               ("core_shell_sphere", "sld_solvent = 6.3", {"sld_solvent": lambda v: 6.3}),
               ("cylinder", "half = 0.5*length\nradius = 0.2*half", {"radius": lambda v: 0.1*v["length"]})]


def run_constraint(case, rec):
    """A reparameterisation that introduces no new parameter (a pure constraint tying one base parameter to others or fixing
    it): the tied parameter leaves the table and the model is the base model at the tied value."""
    from sasmodels import core as sascore, direct_model
    k = case["k"]
    base, text, rule = CONSTRAINTS[k % len(CONSTRAINTS)]
    rng = core.rng_for(case["seed"], PROP, "constraint", k)
    bi = sas.info(base)
    try:
        info = sascore.reparameterize(bi, [], text, name="rtm16_con_%d" % (k % len(CONSTRAINTS)))
        model = sascore.build_model(info, platform="dll")
    except Exception as exc:
        rec.check("reparameterize_accepts_valid_definition", False, {"base": base, "translation": text, "exception": repr(exc)[:800]})
        return
    tied = list(rule)
    names = [p_.name for p_ in info.parameters.kernel_parameters]
    rec.check("untouched_parameters_preserved", all(t_ not in names for t_ in tied) and
              [n_ for n_ in names] == [p_.name for p_ in bi.parameters.kernel_parameters if p_.name not in tied],
              {"base": base, "translation": text, "tied": tied, "table_now": names})
    pars0 = sas.base_pars(bi, case["seed"]*17 + k)
    dim = "2d" if (k // len(CONSTRAINTS)) % 2 and bi.parameters.orientation_parameters else "1d"
    rp = {kk: vv for kk, vv in pars0.items() if kk not in tied}
    bp = dict(pars0)
    for t_, fn in rule.items():
        bp[t_] = float(fn(bp))
    size = sas.size_scale(bi, bp)
    if dim == "1d":
        q = [np.clip(np.exp(rng.uniform(math.log(0.1/size), math.log(8.0/size), 4)), 1e-6, 3.0)]
    else:
        qx, qy = sas.q_points_2d(bi, bp, 4, rng)
        q = [qx, qy]
        for a_ in [p_.name for p_ in bi.parameters.orientation_parameters]:
            rp[a_] = bp[a_] = float(rng.uniform(-80, 80))
    I = np.asarray(direct_model.call_kernel(model.make_kernel(q), dict(rp)), float)
    Ib = np.asarray(direct_model.call_kernel(sas.build(base).make_kernel(q), dict(bp)), float)
    sc = float(np.max(np.abs(Ib - bp.get("background", 0.0))))
    ok = core.close(I, Ib, 1e-10, 1e-12*sc)
    rec.check("equals_base_at_translated", ok,
              None if ok else {"base": base, "translation": text, "values": rp, "tied_value": {t_: bp[t_] for t_ in tied},
                               "observed": I, "base": Ib, "max_rel_err": core.maxrel(I, Ib, 1e-12*sc)})
    if dim == "1d":
        Fr = direct_model.call_Fq(model.make_kernel(q), dict(rp, radius_effective_mode=1 if bi.radius_effective_modes else 0))
        Fb = direct_model.call_Fq(sas.build(base).make_kernel(q), dict(bp, radius_effective_mode=1 if bi.radius_effective_modes else 0))
        okF = core.close(np.asarray(Fr[1], float), np.asarray(Fb[1], float), 1e-10, 1e-12*float(np.max(np.abs(np.asarray(Fb[1], float))))) \
            and core.close(float(Fr[2]), float(Fb[2]), 1e-10) and core.close(float(Fr[3]), float(Fb[3]), 1e-10)
        rec.check("Fq_equals_base_at_translated", okF, None if okF else {"base": base, "translation": text, "observed": Fr[1:], "base_values": Fb[1:]})
    # the tied parameter is not an argument any more
    try:
        direct_model.call_kernel(model.make_kernel(q), dict(rp, **{tied[0]: 1.0}))
        refused = False
    except Exception:
        refused = True
    rec.check("untouched_parameters_preserved", refused, {"base": base, "translation": text, "note": "the tied parameter %s was accepted as an argument" % tied[0]})
    rec.bucket("translation-without-new-parameters", "dim:" + dim)
    rec.set_shape(("constraint", base, k), True)


VECTORS = [
    # (base, new parameters, translation, python translation, the call parameter that carries the distribution)
    ("core_shell_sphere", [["r[2]", "Ang", 40.0, [0, np.inf], "volume", "core radius, shell thickness"]],
     "radius = r[0]\nthickness = r[1]", lambda v: {"radius": v["r1"], "thickness": v["r2"]}, ["r1", "r2"]),
    ("core_multi_shell", [["core_ratio", "", 3.0, [0, np.inf], "", "core radius : first shell thickness"]],
     "radius = core_ratio*thickness[0]", lambda v: {"radius": v["core_ratio"]*v["thickness1"]}, ["thickness1", "thickness2"]),
]


def run_vector(case, rec):
    """Translations that involve vector parameters (a new vector parameter, or an element of a base vector parameter read by
    the translation): a size distribution on an element is the weighted mean of the base model over that element's mesh,
    in 1-D as in 2-D."""
    from sasmodels import core as sascore, direct_model, weights
    k = case["k"]
    base, new, text, pyt, elements = VECTORS[k % len(VECTORS)]
    rng = core.rng_for(case["seed"], PROP, "vector", k)
    bi = sas.info(base)
    try:
        info = sascore.reparameterize(bi, new, text, name="rtm16_vec_%d" % (k % len(VECTORS)))
        model = sascore.build_model(info, platform="dll")
    except Exception as exc:
        rec.check("reparameterize_accepts_valid_definition", False, {"base": base, "translation": text, "exception": repr(exc)[:800]})
        return
    bm = sas.build(base)
    vals = {"scale": float(rng.uniform(0.5, 2)), "background": float(rng.uniform(0, 0.1))}
    for p_ in info.parameters.call_parameters[2:]:
        if p_.type == "magnetic":
            continue
        if p_.type == "sld":
            vals[p_.name] = float(rng.uniform(0.5, 6))
        elif p_.name == "n":
            vals[p_.name] = 2.0
        elif p_.name == "core_ratio":
            vals[p_.name] = float(rng.uniform(2, 4))
        else:
            vals[p_.name] = float(rng.uniform(15, 45))
    el = elements[(k // len(VECTORS)) % len(elements)]
    dist = ["gaussian", "schulz", "rectangle"][(k // 4) % 3]
    pd = {"_pd": float(rng.uniform(0.1, 0.3)), "_pd_n": int(rng.integers(4, 9)), "_pd_nsigma": 1.7 if dist == "rectangle" else 2.5,
          "_pd_type": dist}
    rp = dict(vals, **{el + s_: x_ for s_, x_ in pd.items()})
    dim = "2d" if (k // 2) % 2 else "1d"
    q = [np.exp(rng.uniform(math.log(0.004), math.log(0.2), 4))]
    if dim == "2d":
        q = [q[0]*math.cos(0.5), q[0]*math.sin(0.5)]
    I = np.asarray(direct_model.call_kernel(model.make_kernel(q), dict(rp)), float)
    pts, wts = weights.get_weights(dist, pd["_pd_n"], pd["_pd"], pd["_pd_nsigma"], vals[el], (0.0, np.inf), True)
    bk = bm.make_kernel(q)
    sF2, sV = np.zeros(len(q[0])), 0.0
    bnames = {p_.name for p_ in bi.parameters.call_parameters}
    for x_, w_ in zip(pts, wts):
        v_ = dict(vals, **{el: float(x_)})
        bp = {kk: vv for kk, vv in v_.items() if kk in bnames}
        bp.update(pyt(v_))
        F = direct_model.call_Fq(bk, dict(bp, scale=1.0, background=0.0))
        sF2 += w_*np.asarray(F[1], float)
        sV += w_*float(F[3])
    exp = vals["scale"]*sF2/sV + vals["background"]
    ok = core.close(I, exp, 1e-9, 1e-11*float(np.max(np.abs(exp))))
    rec.check("dispersity_is_weighted_mean_of_base", ok,
              None if ok else {"base": base, "translation": text, "values": rp, "dim": dim, "distribution_on": el, "observed": I,
                               "weighted_mean_of_base": exp, "max_rel_err": core.maxrel(I, exp)}, key="C16/vector-element-distribution")
    rec.bucket("translation-with-vector-parameter", "vector:" + ("new" if "[" in new[0][0] else "base-element-read"), "dim:" + dim)
    rec.set_shape(("vector", base, el, dim, dist), True)


def run_sldmag(case, rec):
    """A base SLD defined through a new SLD-typed parameter (sld = sld_solvent + contrast_sld; sld_core = 0.5*(a + b)) that
    carries magnetisation, evaluated in 2-D: every spin channel sees the translated effective SLD, i.e. the base model with
    the correspondingly translated magnetisation."""
    from sasmodels import core as sascore, direct_model
    k = case["k"]
    base = ["sphere", "cylinder", "ellipsoid", "core_shell_sphere"][k % 4]
    rng = core.rng_for(case["seed"], PROP, "sldmag", k)
    bi = sas.info(base)
    tgt = "sld" if base != "core_shell_sphere" else "sld_core"
    fac = float(rng.choice([1.0, 0.5, 2.0]))
    new = [["contrast_sld", "1e-6/Ang^2", 2.5, [-np.inf, np.inf], "sld", "sld above the solvent"]]
    text = "%s = sld_solvent + %r*contrast_sld" % (tgt, fac)
    try:
        info = sascore.reparameterize(bi, new, text, name="rtm16_sldmag_%d" % k)
        model = sascore.build_model(info, platform="dll")
    except Exception as exc:
        rec.check("reparameterize_accepts_valid_definition", False, {"base": base, "translation": text, "exception": repr(exc)[:800]})
        return
    bmodel = sas.build(base)
    pars0 = sas.base_pars(bi, case["seed"]*17 + k)
    cs = float(rng.uniform(0.5, 4.0))
    rp = {kk: vv for kk, vv in pars0.items() if kk != tgt}
    rp["contrast_sld"] = cs
    bp = dict(pars0)
    bp[tgt] = pars0["sld_solvent"] + fac*cs
    for a_ in [p_.name for p_ in bi.parameters.orientation_parameters]:
        rp[a_] = bp[a_] = float(rng.uniform(-80, 80))
    m0, mt, mp = float(rng.uniform(0.5, 4.0)), float(rng.uniform(-80, 80)), float(rng.uniform(-170, 170))
    ups = {"up_frac_i": float(rng.uniform(0, 1)), "up_frac_f": float(rng.uniform(0, 1)), "up_theta": float(rng.uniform(0, 180)),
           "up_phi": float(rng.uniform(0, 180))}
    rp.update(ups, contrast_sld_M0=m0, contrast_sld_mtheta=mt, contrast_sld_mphi=mp)
    # one magnetised SLD (the solvent is not magnetised): the base SLD's magnetisation is the new one's times the factor
    bp.update(ups, **{tgt + "_M0": fac*m0, tgt + "_mtheta": mt, tgt + "_mphi": mp})
    qx, qy = sas.q_points_2d(bi, bp, 5, rng)
    I = np.asarray(direct_model.call_kernel(model.make_kernel([qx, qy]), dict(rp)), float)
    Ib = np.asarray(direct_model.call_kernel(bmodel.make_kernel([qx, qy]), dict(bp)), float)
    sc = float(np.max(np.abs(Ib - bp.get("background", 0.0))))
    ok = core.close(I, Ib, 1e-9, 1e-12*sc)
    rec.check("equals_base_at_translated", ok,
              None if ok else {"base": base, "translation": text, "new_values": {"contrast_sld": cs, "contrast_sld_M0": m0},
                               "polarisation": ups, "observed": I, "base_with_translated_magnetisation": Ib,
                               "max_rel_err": core.maxrel(I, Ib, 1e-12*sc)})
    rec.bucket("magnetic:on-translated-sld")
    rec.set_shape(("sldmag", base, k), True)


BASE_PLUGIN = """r\"\"\"base model of a reparameterisation (verification harness)\"\"\"
from numpy import inf
name = "%(name)s"
title = "base"
description = "base"
category = "shape-independent"
parameters = [["rg", "Ang", 40, [0, inf], "volume", "size"],
              ["contrast", "1e-6/Ang^2", 2.0, [-inf, inf], "", "contrast"]]
form_volume = \"\"\"
    return %(vc)r*rg*rg*rg;
    \"\"\"
Iq = \"\"\"
    const double qr = q*rg;
    return square(contrast)*%(amp)r*exp(-%(dec)r*qr*qr);
    \"\"\"
"""

REP_PLUGIN = """r\"\"\"reparameterised plugin (verification harness)\"\"\"
from numpy import inf
from sasmodels.core import reparameterize
parameters = [["mass", "", 5.0e4, [0, inf], "volume", "stands for rg^3"]]
translation = \"\"\"
    rg = cbrt(mass)
    \"\"\"
model_info = reparameterize(%(base)r, parameters, translation, __file__)
"""


def run_plugin(case, rec):
    from sasmodels import core as sascore, direct_model
    k = case["k"]
    rng = core.rng_for(case["seed"], PROP, "plugin", k)
    d = os.path.join(os.environ.get("RTM_SCRATCH", "/tmp"), "c16plugins", "p%d_%d" % (k, case["seed"]))
    os.makedirs(d, exist_ok=True)
    bpath, rpath = os.path.join(d, "rtm16_base_%d.py" % k), os.path.join(d, "rtm16_rep_%d.py" % k)
    t0 = 1_700_000_000 + 1000*k
    order = ["base-first", "reparameterised-first"][k % 2]
    q = [np.array([0.004, 0.011, 0.03, 0.07])]

    def write_base(ver, stamp):
        with open(bpath, "w") as f:
            f.write(BASE_PLUGIN % dict(name="rtm16_base_%d" % k, **ver))
        os.utime(bpath, (stamp, stamp))

    def formula(ver, mass, contrast, scale, bg, weights=None):
        pts = [(mass, 1.0)] if weights is None else weights
        W = sum(w_ for _m, w_ in pts)
        rgs = [m_**(1.0/3.0) for m_, _w in pts]
        F2 = sum(w_*contrast**2*ver["amp"]*np.exp(-ver["dec"]*(q[0]*r_)**2) for (_m, w_), r_ in zip(pts, rgs))/W
        V = sum(w_*ver["vc"]*r_**3 for (_m, w_), r_ in zip(pts, rgs))/W
        return scale*F2/V + bg

    vers = [{"vc": round(float(rng.uniform(1, 5)), 3), "amp": round(float(rng.uniform(0.5, 3)), 3), "dec": round(float(rng.uniform(0.2, 0.5)), 3)}
            for _ in range(3)]
    write_base(vers[0], t0)
    with open(rpath, "w") as f:
        f.write(REP_PLUGIN % dict(base=bpath))
    os.utime(rpath, (t0 - 500, t0 - 500))
    for step, ver in enumerate(vers):
        if step:
            write_base(ver, t0 + 100*step)
        try:
            if order == "base-first":
                binfo = sascore.load_model_info(bpath)
                rinfo = sascore.load_model_info(rpath)
            else:
                rinfo = sascore.load_model_info(rpath)
                binfo = sascore.load_model_info(bpath)
            rmodel = sascore.build_model(rinfo, platform="dll")
        except Exception as exc:
            rec.check("reparameterize_accepts_valid_definition", False, {"plugin": rpath, "step": step, "exception": repr(exc)[:800]})
            return
        mass, contrast = float(rng.uniform(2e4, 2e5)), float(rng.uniform(0.5, 4))
        scale, bg = float(rng.uniform(0.5, 2)), float(rng.uniform(0, 0.01))
        kr = rmodel.make_kernel(q)
        I = np.asarray(direct_model.call_kernel(kr, {"mass": mass, "contrast": contrast, "scale": scale, "background": bg}), float)
        exp = formula(ver, mass, contrast, scale, bg)
        ok = core.close(I, exp, 1e-10, 1e-13)
        ctx = {"base_plugin_version": ver, "step": step, "load_order": order, "mass": mass, "contrast": contrast}
        rec.check("equals_base_at_translated", ok, None if ok else dict(ctx, observed=I, base_formula_now_on_disk=exp))
        pdp = {"mass": mass, "contrast": contrast, "scale": scale, "background": bg, "mass_pd": 0.2, "mass_pd_n": 7, "mass_pd_nsigma": 2.0}
        Ipd = np.asarray(direct_model.call_kernel(kr, pdp), float)
        mesh = direct_model.get_mesh(rinfo, pdp, dim="1d")
        names = [p_.name for p_ in rinfo.parameters.call_parameters]
        col = mesh[names.index("mass")]
        exppd = formula(ver, mass, contrast, scale, bg, weights=list(zip([float(x_) for x_ in col[1]], [float(x_) for x_ in col[2]])))
        okp = core.close(Ipd, exppd, 1e-10, 1e-13)
        rec.check("dispersity_is_weighted_mean_of_base", okp, None if okp else dict(ctx, observed=Ipd, expected=exppd))
        kr.release()
        rec.bucket("base-is-plugin-file:" + order, "base-plugin-revision:%d" % step)
    rec.set_shape(("plugin", k, order), True)


def run_case(case, rec):
    if case.get("kind") == "plugin":
        return run_plugin(case, rec)
    if case.get("kind") == "sldmag":
        return run_sldmag(case, rec)
    if case.get("kind") == "constraint":
        return run_constraint(case, rec)
    if case.get("kind") == "vector":
        return run_vector(case, rec)
    from sasmodels import core as sascore, direct_model
    base, k = case["base"], case["k"]
    bi = sas.info(base)
    rng = core.rng_for(case["seed"], PROP, k)
    pars0 = sas.base_pars(bi, case["seed"]*17 + k)
    tpl, new, st, repl, feeds = build_translation(bi, case["tpl"], rng, pars0, keep_name=(k % 3 == 1))
    # the author's names for intermediate values: any identifier will do, including words the generated kernel uses itself
    inter = [lhs for lhs, _ in st if lhs not in repl]
    if inter and k % 2 == 0:
        pool = sorted(INTER_NAMES)
        mapping = {nm: pool[(k//2 + j_) % len(pool)] for j_, nm in enumerate(inter)}

        def _ren(e):
            if isinstance(e, tuple):
                if len(e) == 2 and e[0] == "v" and e[1] in mapping:
                    return ("v", mapping[e[1]])
                return tuple(_ren(x) for x in e)
            return e
        st = [(mapping.get(lhs, lhs), _ren(e)) for lhs, e in st]
        rec.bucket("intermediate-named-like-a-kernel-word")
    # the new parameters need not be size parameters as far as the table is concerned: every fourth case declares
    # them with an empty type (then no new parameter can carry dispersity; the base still has a volume)
    if k % 4 == 3 and tpl != "boundary":
        new = [n[:4] + [""] + n[5:] for n in new]
        rec.bucket("new-parameters:untyped")
        if not any(p.type == "volume" for p in bi.parameters.kernel_parameters if p.name not in repl):
            rec.bucket("new-parameters:untyped-and-no-volume-parameter-left")
    rec.bucket("tpl:" + tpl, "lane:" + case.get("lane", "plain"))
    if any(n[0] in repl for n in new):
        rec.bucket("new-parameter-keeps-base-name")
    text = "\n".join("        %s = %s" % (lhs, strip_outer(C(ast)) if _is_inter(lhs) else C(ast)) for lhs, ast in st)
    # every fifth case puts a helper function for the translation into an additional C source file
    extra_source = None
    if k % 5 == 3 and st:
        hdir = os.path.join(os.environ.get("RTM_SCRATCH", "/tmp"), "c16helpers")
        os.makedirs(hdir, exist_ok=True)
        extra_source = os.path.join(hdir, "rtm_helper_%04d.c" % k)
        with open(extra_source, "w") as f_:
            f_.write("double rtm_pass_%d(double x);\ndouble rtm_pass_%d(double x)\n{\n    return x;\n}\n" % (k, k))
        lines_ = text.split("\n")
        lhs_, rhs_ = lines_[-1].split(" = ", 1)
        lines_[-1] = "%s = rtm_pass_%d(%s)" % (lhs_, k, rhs_)
        text = "\n".join(lines_)
        rec.bucket("translation-helper-in-extra-source-file")
        if bi.id in ("vesicle", "hollow_cylinder"):
            rec.bucket("translation-helper-in-extra-source-file:hollow-base")
    src_kw = dict(source=[os.path.basename(extra_source)],
                  filename=os.path.join(os.path.dirname(extra_source), "rtm_rep_%04d.py" % k)) if extra_source else {}
    untouched = [p for p in bi.parameters.kernel_parameters if p.name not in repl]
    angles = [p.name for p in bi.parameters.orientation_parameters]
    place = ["default", "start", "after-untouched", "after-angle"][(k // 5) % 4]
    if place == "after-angle" and not angles:
        place = "after-untouched"
    plain_untouched = [p for p in untouched if p.type != "orientation"]
    if place == "after-untouched" and not plain_untouched:
        place = "start"
    names_new = ",".join(n[0] for n in new)
    ia = None
    if place == "start":
        ia = {"": names_new}
    elif place == "after-untouched":
        ia = {plain_untouched[int(rng.integers(len(plain_untouched)))].name: names_new}
    elif place == "after-angle":
        ia = {angles[-1]: names_new}
    rec.bucket("place:" + place)
    try:
        info = sascore.reparameterize(bi, new, text, insert_after=ia, name="rtm_rep_%04d" % k, **src_kw)
    except Exception as exc:
        rec.check("reparameterize_accepts_valid_definition", False,
                  {"base": base, "translation": text, "insert_after": ia, "exception": repr(exc)})
        return
    # invalid placements must raise: unknown anchor; between theta and phi
    if angles:
        try:
            sascore.reparameterize(bi, new, text, insert_after={"theta": names_new}, name="rtm_bad2_%04d" % k)
            rec.check("invalid_placement_refused", False, {"base": base, "insert_after": "theta (splits theta/phi)"})
        except Exception:
            rec.check("invalid_placement_refused", True)
    try:
        sascore.reparameterize(bi, new, text, insert_after={"no_such_parameter": names_new}, name="rtm_bad_%04d" % k)
        rec.check("invalid_placement_refused", False, {"base": base, "insert_after": "no_such_parameter"})
    except Exception:
        rec.check("invalid_placement_refused", True)
    # table monitor
    newtab = {p.name: p for p in info.parameters.kernel_parameters}
    oldorder = [p.name for p in untouched]
    neworder = [p.name for p in info.parameters.kernel_parameters if p.name in set(oldorder)]
    same = all((p.name in newtab and newtab[p.name].limits == p.limits and newtab[p.name].type == p.type
                and newtab[p.name].units == p.units and newtab[p.name].length == p.length) for p in untouched)
    rec.check("untouched_parameters_preserved", same and oldorder == neworder and all(r not in newtab or r in {n[0] for n in new} for r in repl)
              and all(n[0] in newtab for n in new)
              and all(tuple(newtab[n[0]].limits) == tuple(float(x) for x in n[3]) and newtab[n[0]].default == n[2]
                      and newtab[n[0]].type == n[4] for n in new if n[0] in newtab),
              {"base": base, "untouched": oldorder, "new_table": [p.name for p in info.parameters.kernel_parameters]})
    # new-parameter values
    newvals = {n[0]: float(n[2]*(rng.uniform(0.8, 1.25) if tpl != "boundary" else 1.0)) for n in new}
    basevals = {p.name: pars0[p.name] for p in bi.parameters.kernel_parameters if p.length == 1}
    for p in bi.parameters.kernel_parameters:
        if p.length > 1:
            for j in range(1, p.length + 1):
                basevals[p.id + str(j)] = pars0[p.id + str(j)]
    tr, env = translate(st, newvals, {kk: vv for kk, vv in basevals.items() if kk not in repl})
    dim = "2d" if (k % 3 == 2) else "1d"
    rec.bucket("dim:" + dim)
    rp = {kk: vv for kk, vv in basevals.items() if kk not in repl}
    rp.update(newvals)
    rp.update(scale=pars0["scale"], background=pars0["background"])
    bp = dict(tr, scale=pars0["scale"], background=pars0["background"])
    size = sas.size_scale(bi, bp)
    if dim == "1d":
        q = [np.clip(np.exp(rng.uniform(math.log(0.1/size), math.log(8.0/size), 4)), 1e-6, 3.0)]
    else:
        qx, qy = sas.q_points_2d(bi, bp, 4, rng)
        q = [qx, qy]
        for a in angles:
            rp[a] = bp[a] = float(rng.uniform(-80, 80))
    if dim == "2d" and bi.parameters.nmagnetic > 0 and k % 2 == 0:
        # magnetism on an untouched SLD (its position in the table moves with the placement of the new parameters)
        slds_ = [p_.name for p_ in bi.parameters.call_parameters if p_.type == "sld"]
        if slds_:
            sm_ = slds_[int(rng.integers(len(slds_)))]
            mg = {sm_ + "_M0": float(rng.uniform(0.5, 4.0)), sm_ + "_mtheta": float(rng.uniform(-80, 80)),
                  sm_ + "_mphi": float(rng.uniform(-170, 170)), "up_frac_i": float(rng.uniform(0, 1)),
                  "up_frac_f": float(rng.uniform(0, 1)), "up_theta": float(rng.uniform(0, 180)), "up_phi": float(rng.uniform(0, 180))}
            rec.bucket("magnetic")
        else:
            mg = {}
    else:
        mg = {}
    model = sascore.build_model(info, platform="dll")
    bmodel = sas.build(base)
    kr, kb = model.make_kernel(q), bmodel.make_kernel(q)
    ctx = {"base": base, "template": tpl, "translation": text, "insert_after": ia, "new_values": newvals,
           "translated_base_values": {r: tr[r] for r in repl}, "dim": dim}
    I = np.asarray(direct_model.call_kernel(kr, dict(rp, **mg)), float)
    Ib = np.asarray(direct_model.call_kernel(kb, dict(bp, **mg)), float)
    if mg:
        ctx["magnetic"] = mg
    sc = float(np.max(np.abs(Ib - bp["background"])))
    ok = core.close(I, Ib, 1e-10, 1e-12*sc)
    rec.check("equals_base_at_translated", ok, None if ok else dict(ctx, observed=I, base=Ib,
                                                                    max_rel_err=core.maxrel(I, Ib, 1e-12*sc)))
    if dim == "1d":
        nm = len(bi.radius_effective_modes or [])
        mode = int(rng.integers(0, nm + 1))
        Fr = direct_model.call_Fq(kr, dict(rp, radius_effective_mode=mode))
        Fb = direct_model.call_Fq(kb, dict(bp, radius_effective_mode=mode))
        okF = all(core.close(np.asarray(x, float), np.asarray(y, float), 1e-10, 1e-300) for x, y in zip(Fr[1:], Fb[1:]))
        if Fr[0] is not None:
            okF = okF and core.close(Fr[0], Fb[0], 1e-10, 1e-10*math.sqrt(float(np.max(np.abs(Fb[1])))))
        rec.check("Fq_equals_base_at_translated", okF, None if okF else dict(ctx, mode=mode, observed=[x for x in Fr[1:]],
                                                                              base=[x for x in Fb[1:]]))
    # ---- a second definition under the same model name and the same new-parameter names, differing only in the
    # constants of its translation, built against the same library cache: it must be its own model, not the first
    if tpl in ("affine", "pair", "power") and case.get("lane", "plain") == "plain":
        rng2 = core.rng_for(case["seed"], PROP, k, "second")
        tpl2, new2, st2, repl2, feeds2 = build_translation(bi, tpl, rng2, pars0, keep_name=(k % 3 == 1))
        if tpl2 == tpl and [n[0] for n in new2] == [n[0] for n in new] and repl2 == repl:
            new2 = [n2[:4] + [n1[4]] + n2[5:] for n1, n2 in zip(new, new2)]
            text2 = "\n".join("        %s = %s" % (lhs, strip_outer(C(ast)) if _is_inter(lhs) else C(ast)) for lhs, ast in st2)
            if text2 != text:
                info2 = sascore.reparameterize(bi, new2, text2, insert_after=ia, name="rtm_rep_%04d" % k, **src_kw)
                model2 = sascore.build_model(info2, platform="dll")
                newvals2 = {n[0]: float(n[2]) for n in new2}
                tr2, _ = translate(st2, newvals2, {kk: vv for kk, vv in basevals.items() if kk not in repl})
                rp2 = {kk: vv for kk, vv in basevals.items() if kk not in repl}
                rp2.update(newvals2)
                rp2.update(scale=pars0["scale"], background=pars0["background"])
                bp2 = dict(tr2, scale=pars0["scale"], background=pars0["background"])
                for a in angles:
                    rp2[a] = bp2[a] = rp.get(a, pars0.get(a, 0.0))
                I2 = np.asarray(direct_model.call_kernel(model2.make_kernel(q), dict(rp2)), float)
                Ib2 = np.asarray(direct_model.call_kernel(kb, dict(bp2)), float)
                sc2 = float(np.max(np.abs(Ib2 - bp2["background"])))
                ok2 = core.close(I2, Ib2, 1e-10, 1e-12*sc2)
                rec.check("equals_base_at_translated", ok2,
                          None if ok2 else dict(ctx, note="second definition under the same name and parameter names",
                                                second_translation=text2, observed=I2, base=Ib2,
                                                max_rel_err=core.maxrel(I2, Ib2, 1e-12*sc2)))
                # and the first definition is still itself
                I1 = np.asarray(direct_model.call_kernel(sascore.build_model(info, platform="dll").make_kernel(q), dict(rp, **mg)), float)
                rec.check("equals_base_at_translated", core.close(I1, Ib, 1e-10, 1e-12*sc),
                          dict(ctx, note="first definition rebuilt after the second", observed=I1, base=Ib))
                rec.bucket("same-name-second-definition")
        # a further definition with the same name, names and equations, differing only in the defaults and upper
        # limits of the new parameters: left at their defaults, the new parameters take *this* definition's values
        if tpl in ("affine", "pair"):
            new3 = [n_[:2] + [float(n_[2])*1.3, [0, float(n_[2])*1.3*4.0]] + n_[4:] for n_ in new]
            info3 = sascore.reparameterize(bi, new3, text, insert_after=ia, name="rtm_rep_%04d" % k, **src_kw)
            model3 = sascore.build_model(info3, platform="dll")
            d3 = {n_[0]: float(n_[2]) for n_ in new3}
            tr3, _ = translate(st, d3, {kk: vv for kk, vv in basevals.items() if kk not in repl})
            rp3 = {kk: vv for kk, vv in rp.items() if kk not in d3}            # new parameters omitted
            bp3 = dict(tr3, scale=pars0["scale"], background=pars0["background"])
            for a in angles:
                bp3[a] = rp.get(a, pars0.get(a, 0.0))
            I3 = np.asarray(direct_model.call_kernel(model3.make_kernel(q), dict(rp3)), float)
            Ib3 = np.asarray(direct_model.call_kernel(kb, dict(bp3)), float)
            ok3 = core.close(I3, Ib3, 1e-10, 1e-12*float(np.max(np.abs(Ib3 - bp3["background"]))))
            rec.check("equals_base_at_translated", ok3,
                      None if ok3 else dict(ctx, note="definition with the same source but other defaults; new parameters "
                                            "left at their defaults", defaults=d3, observed=I3, base=Ib3))
            lim3 = {p_.name: tuple(p_.limits) for p_ in info3.parameters.call_parameters if p_.name in d3}
            got3 = {p_.name: tuple(p_.limits) for p_ in model3.info.parameters.call_parameters if p_.name in d3}
            rec.check("untouched_parameters_preserved", lim3 == got3,
                      {"base": base, "note": "built model carries another definition's limits", "declared": lim3, "carried": got3})
            rec.bucket("same-source-other-defaults")
    # ---- dispersity on new parameters: weighted mean over the mesh in the new parameters
    newpars = [p for p in info.parameters.call_parameters if p.name in newvals and p.polydisperse]
    if newpars:
        pdp = dict(rp)
        chosen = [p for p in newpars if p.name in feeds][:2] or newpars[:2]
        if any(p.name in feeds for p in chosen):
            rec.bucket("pd:feeds-intermediate")
        wide = False
        big = (k % 4 == 2)
        for p in chosen:
            sas.add_pd(pdp, p, ["gaussian", "schulz", "uniform"][int(rng.integers(3))],
                       (int(rng.integers(11, 14)) if len(chosen) > 1 else int(rng.integers(101, 140))) if big else int(rng.integers(3, 7)),
                       float(rng.uniform(0.25, 0.45)) if wide else float(rng.uniform(0.05, 0.2)), 2.0)
        if big:
            # more than 100 mesh points: the compiled kernel is re-entered part-way through the mesh
            rec.bucket("pd:mesh>100")
            # and a third distribution, on an untouched size parameter of the base model (three nested loops)
            third = [p for p in info.parameters.call_parameters if p.polydisperse and p.type == "volume" and p.name not in newvals
                     and p.name in pdp and p.length == 1 and np.isfinite(pdp[p.name]) and pdp[p.name] > 0
                     and not p.name.startswith("n_")]
            if third and len(chosen) > 1:
                p3 = third[int(rng.integers(len(third)))]
                room3 = min(abs(pdp[p3.name] - p3.limits[0]), abs(p3.limits[1] - pdp[p3.name]))/abs(pdp[p3.name])
                w3 = min(0.1, 0.9*room3/2.0)
                if w3 > 0:
                    sas.add_pd(pdp, p3, "gaussian", int(rng.integers(3, 6)), w3, 2.0)
                    rec.bucket("pd:three-loops-mesh>100")
        Ipd = np.asarray(direct_model.call_kernel(kr, dict(pdp)), float)
        modes_b = len(bi.radius_effective_modes or [])
        mode_pd = int(rng.integers(1, modes_b + 1)) if modes_b else 0
        Fpd = direct_model.call_Fq(kr, dict(pdp, radius_effective_mode=mode_pd))
        mesh = direct_model.get_mesh(info, pdp, dim=dim)
        cp = info.parameters.call_parameters
        npar = info.parameters.npars
        cols = mesh[2:2 + npar]
        pnames = [p.name for p in cp[2:2 + npar]]
        braw = sas.raw(bi)
        oracle = sas.Oracle(bi)
        sw, sws, swf, swr, f2 = [], [], [], [], [[] for _ in range(len(q[0]))]
        ninvalid = 0
        axes = [list(zip([float(x) for x in np.ravel(c[1])], [float(x) for x in np.ravel(c[2])])) for c in cols]
        view = {a: float(pdp.get(a, 0.0)) for a in angles}
        for combo in itertools.product(*axes):
            point = {n: c_[0] for n, c_ in zip(pnames, combo)}
            w = 1.0
            for c_ in combo:
                w *= c_[1]
            jitter = (point.get("theta", 0.0), point.get("phi", 0.0), point.get("psi", 0.0)) if dim == "2d" and angles else (0, 0, 0)
            if dim == "2d" and angles:
                w *= abs(math.cos(math.radians(jitter[0])))
            nv = {kk: point[kk] for kk in newvals}
            bpt, _ = translate(st, nv, {kk: point.get(kk, basevals.get(kk)) for kk in basevals if kk not in repl})
            try:
                vec = braw.flat(bpt)
            except KeyError:
                raise
            if not braw.valid(vec) or not all(math.isfinite(x) for x in vec):
                ninvalid += 1
                continue
            if not (w > 0.0):
                continue
            sw.append(w)
            sws.append(w*braw.shell_volume(vec))
            swf.append(w*braw.form_volume(vec))
            if mode_pd:
                swr.append(w*braw.radius_effective(mode_pd, vec))
            for j in range(len(q[0])):
                qq = float(q[0][j]) if dim == "1d" else (float(q[0][j]), float(q[1][j]))
                f2[j].append(w*oracle.F2(vec, qq, dim, view, jitter))
        if ninvalid:
            rec.bucket("validity-boundary-crossed")
        W = math.fsum(sw)
        if W > 0:
            shell = math.fsum(sws)/W
            exp = pdp["scale"]*np.array([math.fsum(x) for x in f2])/W/(shell if shell else 1.0) + pdp["background"]
        else:
            exp = np.full(len(q[0]), pdp["background"])
        sc2 = float(np.max(np.abs(exp - pdp["background"])))
        okp = core.close(Ipd, exp, 1e-9, 1e-12*sc2)
        rec.check("dispersity_is_weighted_mean_of_base", okp,
                  None if okp else dict(ctx, dispersed=[p.name for p in chosen], observed=Ipd, expected=exp,
                                        invalid_points=ninvalid, max_rel_err=core.maxrel(Ipd, exp, 1e-12*sc2)))
        if W > 0 and Fpd is not None and not any(kk.endswith("_M0") and vv for kk, vv in pdp.items()):
            # the amplitude entry point over the same mesh: <F^2>, effective radius, shell volume, form:shell ratio
            form = math.fsum(swf)/W
            expF2 = np.array([math.fsum(x) for x in f2])/W
            okq = core.close(np.asarray(Fpd[1], float), expF2, 1e-9, 1e-12*float(np.max(np.abs(expF2))))
            okq = okq and core.close(float(Fpd[3]), shell if shell else 1.0, 1e-10)
            okq = okq and (not shell or core.close(float(Fpd[4]), form/shell, 1e-10))
            if mode_pd:
                okq = okq and core.close(float(Fpd[2]), math.fsum(swr)/W, 1e-10)
            rec.check("dispersity_is_weighted_mean_of_base", okq,
                      None if okq else dict(ctx, entry="call_Fq", mode=mode_pd, dispersed=[p.name for p in chosen],
                                            mesh_points=len(sw), observed=[Fpd[1], Fpd[2], Fpd[3], Fpd[4]],
                                            expected=[expF2, math.fsum(swr)/W if mode_pd else None, shell, form/shell if shell else None]))
            rec.bucket("pd:amplitude-entry")
    rec.set_shape((base, tpl, place, dim, sorted(kk for kk in newvals)), nontrivial=bool(repl))
    if k < 3:
        rec.observe(base=base, template=tpl, translation=text, insert_after=ia, I=I, base_I=Ib)
    kr.release()
    kb.release()


LEVEL_TEXT = ("Generated reparameterisations are built with the real core.reparameterize and executed; results are compared "
              "with the separately built base model at numpy-translated parameters (I, Fq tuple, 1-D and 2-D) and, under "
              "dispersity on new parameters, with a naive weighted mean of raw-library base evaluations over the mesh in "
              "the new parameters with the base validity predicate at the translated point; parameter-table preservation "
              "and refusal of invalid placements are monitored; reduced copy under ASan/UBSan.")
LEVEL_NOTE = "Trusts the harness's double rendering of the translation (C text / numpy) and the base model alone (C01)."
TECHNIQUE = "differential reference monitor over generated reparameterisations (base model at translated parameters) + ASan/UBSan lane"
