"""
C07 - P@S interaction models combine form and structure factor as documented.

The real P@S kernel is compared with the documented combination of two
independent calls on separately built models: call_Fq(P) and call_kernel(S).
"""
from __future__ import annotations

import math
import os

import numpy as np

from rtm import core, sas

PROP = "C07"
LEVEL = "exploration"
RULE = ("Every form factor that make_product_info accepts x 4 structure factors (rotating; a fixed sub-grid of 3 P x 4 S x "
        "all modes) x effective-radius modes 0..n x beta on/off x dispersity on P parameters (1-2 dimensions, meshes on "
        "both sides of the chunk boundary) and, in mode 0 and mode>0, on radius_effective x P with/without volfraction, "
        "hollow/solid, with/without Fq, Python P x 1-D and 2-D.  Distinct: hash of (P, S, mode, beta, dim, dispersed "
        "parameters).  Non-trivial: volfraction > 0 and S differs from 1 at some q.")
ASSUMPTIONS = ["P alone (call_Fq) and S alone (call_kernel) are the reference for the averages and S(q) (C01 covers them)",
               "parameters are located by position in the public P@S table: P block, S block minus elided volfraction, modes"]
REQUIRED_MONITORS = ["equals_documented_combination", "results_reproduce_intensity", "reported_S_is_S_at_reported_inputs",
                     "reported_volume_is_P_shell_volume", "beta_2d_refused", "S_radius_is_weighted_mean_of_P_radius",
                     "S_volfraction_ratio_is_ratio_of_weighted_volumes", "reported_results_belong_to_their_evaluation"]
REQUIRED_BUCKETS = {"quick": ["mode:0", "mode:>0", "beta:on", "beta:off", "dim:1d", "dim:2d", "P:owns_volfraction",
                              "P:hollow", "P:python", "P:no_Fq", "pd:P", "pd:radius_effective", "mesh>100",
                              "bigmesh_mode>0_no_F1_branch", "S:hardsphere", "S:hayter_msa", "S:squarewell", "S:stickyhardsphere", "lane:asan",
                              "cutoff>0", "retained_weights_do_not_sum_to_one",
                              "sequence:mode-changed-on-same-kernel", "contrast-matched:beta-on",
                              "magnetic-P", "magnetic-P:owns-volfraction", "precision:python-P-with-single-S",
                              "precision:python-P-with-long-double-S", "P:hollow-plugin-python", "P:hollow-plugin-c-string",
                              "P:hollow-plugin-c-code", "mode>0:unused-radius-entry-outside-limits"]}
REQUIRED_BUCKETS["thorough"] = REQUIRED_BUCKETS["quick"]
SF = ["hardsphere", "hayter_msa", "squarewell", "stickyhardsphere"]
_cache = {}


def product_info(P, S):
    from sasmodels import core as sascore
    key = P + "@" + S
    if key not in _cache:
        _cache[key] = sascore.load_model_info(key)
    return _cache[key]


def form_factors():
    out = []
    for m in sas.list_models():
        i = sas.info(m)
        if i.structure_factor or "radius_effective" in i.parameters:
            continue
        try:
            product_info(m, "hardsphere")
        except Exception:
            continue
        out.append(m)
    return out


def worker_init(tier, seed):
    sas.install_poison()


def gen_cases(tier, seed):
    cases = []
    ff = form_factors()
    reps = 1 if tier == "quick" else 12
    for n, P in enumerate(ff):
        for r in range(reps):
            S = SF[(n + r + seed) % 4]
            cases.append({"id": "%s@%s/%02d" % (P, S, r), "P": P, "S": S, "k": n*7 + r, "seed": seed, "group": P,
                          "lane": "plain", "allmodes": False})
    for P in ["sphere", "hollow_cylinder", "vesicle", "core_shell_bicelle", "pringle"]:
        for S in SF:
            cases.append({"id": "grid/%s@%s" % (P, S), "P": P, "S": S, "k": 900 + len(cases), "seed": seed,
                          "group": "grid-" + P, "lane": "plain", "allmodes": True})
    # constructive: effective radius from P accumulated over more than one 100-point chunk, in the kernel
    # variants without a separate <F> output (P without Fq in 1-D, any P in 2-D)
    for P, dim in [("mono_gauss_coil", "1d"), ("pearl_necklace", "1d"), ("cylinder", "2d"), ("hollow_cylinder", "2d"),
                   ("raspberry", "1d"), ("ellipsoid", "2d")]:
        cases.append({"id": "bigmesh/%s-%s" % (P, dim), "P": P, "S": SF[len(cases) % 4], "k": 700 + len(cases),
                      "seed": seed, "group": "big-" + P, "lane": "plain", "allmodes": False, "bigmesh": dim})
    # hollow form factors supplied as plugins
    for j_, var in enumerate(("python", "c-string", "c-code")):
        for S in (SF if tier == "thorough" else [SF[(seed + j_) % 4], SF[(seed + j_ + 2) % 4]]):
            cases.append({"id": "hollowplugin/%s@%s" % (var, S), "kind": "hollowplugin", "variant": var, "S": S, "k": len(cases),
                          "seed": seed, "group": "hp-" + var, "lane": "plain"})
    # form factors given other shape parameters (core.reparameterize), used as P
    for j_ in range(len(REPARAM_P)):
        for S in (SF if tier == "thorough" else [SF[(seed + j_) % 4], SF[(seed + j_ + 1) % 4]]):
            cases.append({"id": "reparam/%d@%s" % (j_, S), "kind": "reparam", "j": j_, "S": S, "k": len(cases), "seed": seed,
                          "group": "rp-%d" % j_, "lane": "plain"})
    # the SasView-style P@S object asked for the beta correction on 2-D data
    for j_, P in enumerate(["sphere", "core_shell_sphere", "vesicle"]):
        S = SF[(seed + j_) % 4]
        cases.append({"id": "svbeta2d/%s@%s" % (P, S), "kind": "svbeta2d", "P": P, "S": S, "k": len(cases), "seed": seed,
                      "group": "sv-" + P, "lane": "plain"})
    # a pure-python form factor (always double) with a compiled structure factor in another precision
    for P in ["poly_gauss_coil", "broad_peak", "power_law"]:
        for S in (SF if tier == "thorough" else SF[:2] + [SF[(seed + len(P)) % 4]]):
            for dt in ("single", "quad!"):
                if not any(c_["id"] == "mixed/%s@%s-%s" % (P, S, dt) for c_ in cases):
                    cases.append({"id": "mixed/%s@%s-%s" % (P, S, dt), "kind": "mixed", "P": P, "S": S, "dtype": dt, "k": len(cases),
                                  "seed": seed, "group": "mixed-" + P, "lane": "plain"})
    for P in (["cylinder", "pringle", "hollow_cylinder"] if tier == "quick" else ff[:20]):
        cases.append({"id": "asan/%s@squarewell" % P, "P": P, "S": "squarewell", "k": 77, "seed": seed,
                      "group": "asan-" + P, "lane": "asan", "allmodes": False, "cost": 4})
    return cases


def s_pars(S, rng):
    i = sas.info(S)
    p = {q.name: q.default for q in i.parameters.kernel_parameters}
    p["volfraction"] = float(rng.uniform(0.02, 0.35))
    if S == "squarewell":
        p["welldepth"], p["wellwidth"] = float(rng.uniform(0.5, 1.8)), float(rng.uniform(1.1, 1.8))
    if S == "stickyhardsphere":
        p["perturb"], p["stickiness"] = float(rng.uniform(0.02, 0.09)), float(rng.uniform(0.15, 0.5))
        p["volfraction"] = float(rng.uniform(0.02, 0.2))
    if S == "hayter_msa":
        p["charge"], p["temperature"] = float(rng.uniform(5, 30)), float(rng.uniform(280, 340))
        p["concentration_salt"] = float(rng.uniform(0.0, 0.1))
    return p


HOLLOW_HEAD = """r\"\"\"hollow sphere plugin (verification harness)\"\"\"
from numpy import inf
name = "%(name)s"
title = "hollow sphere"
description = "hollow sphere"
category = "shape:sphere"
parameters = [["sld", "1e-6/Ang^2", 1.0, [-inf, inf], "sld", ""], ["sld_solvent", "1e-6/Ang^2", 6.0, [-inf, inf], "sld", ""],
              ["radius", "Ang", 30.0, [0, inf], "volume", "core radius"], ["thickness", "Ang", 12.0, [0, inf], "volume", "wall"]]
"""
HOLLOW_PY = HOLLOW_HEAD + """
import numpy as np
def _j(x):
    return 3.0*(np.sin(x) - x*np.cos(x))/x**3
def form_volume(radius, thickness):
    return 4.18879020478639*(radius + thickness)**3
def shell_volume(radius, thickness):
    return 4.18879020478639*((radius + thickness)**3 - radius**3)
def Iq(q, sld, sld_solvent, radius, thickness):
    vo, vi = 4.18879020478639*(radius + thickness)**3, 4.18879020478639*radius**3
    f = (sld - sld_solvent)*(vo*_j(q*(radius + thickness)) - vi*_j(q*radius))
    return 1e-4*f**2
Iq.vectorized = True
"""
HOLLOW_C = HOLLOW_HEAD + """
source = ["lib/sas_3j1x_x.c"]
form_volume = \"\"\"
    return M_4PI_3*cube(radius + thickness);
\"\"\"
%(shell)s
Iq = \"\"\"
    const double vo = M_4PI_3*cube(radius + thickness);
    const double vi = M_4PI_3*cube(radius);
    const double f = (sld - sld_solvent)*(vo*sas_3j1x_x(q*(radius + thickness)) - vi*sas_3j1x_x(q*radius));
    return 1e-4*f*f;
\"\"\"
"""
SHELL_STRING = 'shell_volume = """\n    return M_4PI_3*(cube(radius + thickness) - cube(radius));\n"""'
SHELL_CCODE = ('c_code = r"""\nstatic double shell_volume(double radius, double thickness)\n{\n'
               '    return M_4PI_3*(cube(radius + thickness) - cube(radius));\n}\n"""')


def run_hollow_plugin(case, rec):
    """A hollow form factor supplied as a plugin (pure python; C with the shell volume as a string body or as a function in
    the inline code block) inside P@S: prefactor volfraction/V_shell and S at volfraction*V_form/V_shell, against closed forms."""
    from sasmodels import core as sascore, direct_model
    kind, S = case["variant"], case["S"]
    rng = core.rng_for(case["seed"], PROP, "hollow", kind, S, case["k"])
    d = os.path.join(os.environ.get("RTM_SCRATCH", "/tmp"), "c07plugins")
    os.makedirs(d, exist_ok=True)
    name = "rtm07_hollow_%s" % kind.replace("-", "_")
    path = os.path.join(d, name + ".py")
    with open(path, "w") as f:
        f.write(HOLLOW_PY % dict(name=name) if kind == "python" else
                HOLLOW_C % dict(name=name, shell=SHELL_STRING if kind == "c-string" else SHELL_CCODE))
    model = sascore.load_model(path + "@" + S, dtype="double", platform="dll")
    Sm = sascore.load_model(S, dtype="double", platform="dll")
    q = [np.exp(rng.uniform(math.log(0.004), math.log(0.25), 5))]
    for rep in range(3):
        R, t = float(rng.uniform(15, 60)), float(rng.uniform(4, 25))
        sld, solv = float(rng.uniform(0.5, 4)), float(rng.uniform(5, 7))
        sp = s_pars(S, rng)
        sp["radius_effective"] = float(rng.uniform(30, 90))
        scale, bg = float(rng.uniform(0.5, 2)), float(rng.uniform(0, 0.05))
        pd = (rep == 2)
        pts = [(t, 1.0)]
        cp = dict(sp, sld=sld, sld_solvent=solv, radius=R, thickness=t, scale=scale, background=bg)
        if pd:
            cp.update(thickness_pd=0.15, thickness_pd_n=5, thickness_pd_nsigma=2.0)
            mesh = direct_model.get_mesh(model.info, {kk: vv for kk, vv in cp.items()}, dim="1d")
            col = mesh[[p_.name for p_ in model.info.parameters.call_parameters].index("thickness")]
            pts = list(zip([float(x_) for x_ in col[1]], [float(x_) for x_ in col[2]]))
        for ctl in ("radius_effective_mode", "structure_factor_mode"):
            if ctl in model.info.parameters:
                cp[ctl] = 0
        W = sum(w_ for _t, w_ in pts)
        j3 = lambda x: 3.0*(np.sin(x) - x*np.cos(x))/x**3
        c43 = 4.0*math.pi/3.0
        F2 = sum(w_*1e-4*((sld - solv)*(c43*(R + t_)**3*j3(q[0]*(R + t_)) - c43*R**3*j3(q[0]*R)))**2 for t_, w_ in pts)/W
        Vf = sum(w_*c43*(R + t_)**3 for t_, w_ in pts)/W
        Vs = sum(w_*c43*((R + t_)**3 - R**3) for t_, w_ in pts)/W
        vf = sp["volfraction"]
        kern = model.make_kernel(q)
        I = np.asarray(direct_model.call_kernel(kern, dict(cp)), float)
        res = kern.results()
        # S is evaluated at the volume fraction the kernel reports (compared with the closed form below to 1e-9): some
        # structure factors (hayter_msa at high volume fraction) amplify a last-bit difference of their input to 1e-5
        Sq = np.asarray(direct_model.call_kernel(Sm.make_kernel(q), dict(sp, scale=1.0, background=0.0,
                                                                         volfraction=vf*float(res["volume_ratio"]))), float)
        exp = scale*vf/Vs*F2*Sq + bg
        ok = core.close(I, exp, 1e-9, 1e-12*float(np.max(np.abs(exp))))
        ctx = {"P": "hollow sphere plugin (%s)" % kind, "S": S, "pars": cp, "q": q[0]}
        rec.check("equals_documented_combination", ok, None if ok else dict(ctx, observed=I, expected=exp, V_form=Vf, V_shell=Vs))
        okv = abs(float(res["volume"]) - Vs) <= 1e-9*Vs and abs(float(res["volume_ratio"]) - Vf/Vs) <= 1e-9*Vf/Vs
        rec.check("reported_volume_is_P_shell_volume", okv,
                  None if okv else dict(ctx, reported=[res["volume"], res["volume_ratio"]], closed_form=[Vs, Vf/Vs]))
        kern.release()
    rec.bucket("P:hollow-plugin-" + kind)
    rec.set_shape(("hollow-plugin", kind, S), True)


def run_mixed(case, rec):
    from sasmodels import core as sascore, direct_model
    P, S, dt = case["P"], case["S"], case["dtype"]
    rng = core.rng_for(case["seed"], PROP, "mixed", P, S, dt)
    model = sascore.load_model(P + "@" + S, dtype=dt, platform="dll")
    Pm = sascore.load_model(P, dtype="double", platform="dll")
    Sm = sascore.load_model(S, dtype=dt, platform="dll")
    pi = sas.info(P)
    pp = {q_.name: float(q_.default) for q_ in pi.parameters.kernel_parameters}
    sp = s_pars(S, rng)
    sp["radius_effective"] = float(rng.uniform(20, 80))
    scale, bg = float(rng.uniform(0.5, 2)), float(rng.uniform(0, 0.1))
    q = [np.exp(rng.uniform(math.log(0.005), math.log(0.3), 5))]
    cp = dict(pp, **sp)
    cp.update(scale=scale, background=bg)
    for ctl in ("radius_effective_mode", "structure_factor_mode"):
        if ctl in model.info.parameters:
            cp[ctl] = 0
    I = np.asarray(direct_model.call_kernel(model.make_kernel(q), dict(cp)), float)
    F1, F2, _R, Vs, ratio = direct_model.call_Fq(Pm.make_kernel(q), dict(pp, scale=1.0, background=0.0, radius_effective_mode=0))
    vf = sp["volfraction"]
    Sq = np.asarray(direct_model.call_kernel(Sm.make_kernel(q), dict(sp, scale=1.0, background=0.0, volfraction=vf*float(ratio))), float)
    p_owns_vf = "volfraction" in pi.parameters
    exp = scale/float(Vs)*(1.0 if p_owns_vf else vf)*np.asarray(F2, float)*Sq + bg
    tol = 2e-4 if dt == "single" else 1e-9
    ok = core.close(I, exp, tol, tol*float(np.max(np.abs(exp))))
    rec.check("equals_documented_combination", ok,
              None if ok else {"P": P + " (pure python, double)", "S": S + " (" + dt + ")", "pars": cp, "q": q[0], "observed": I,
                               "expected": exp, "S(Q) alone in that precision": Sq})
    rec.bucket("precision:python-P-with-%s-S" % ("single" if dt == "single" else "long-double"))
    rec.set_shape(("mixed", P, S, dt), nontrivial=bool(np.any(np.abs(Sq - 1) > 1e-3)))


REPARAM_P = [
    # form factors given other shape parameters (as many as the base model has): (base, new parameters, translation, the
    # same translation in python)
    ("ellipsoid", [["vol", "Ang^3", 6.7e5, [0, np.inf], "volume", "particle volume"],
                   ["aspect", "", 2.0, [0.1, 10.0], "volume", "polar:equatorial"]],
     "re = cbrt(vol/(M_4PI_3*aspect))\nradius_equatorial = re\nradius_polar = aspect*re",
     lambda p: {"radius_equatorial": (p["vol"]/(4.0*math.pi/3.0*p["aspect"]))**(1.0/3.0),
                "radius_polar": p["aspect"]*(p["vol"]/(4.0*math.pi/3.0*p["aspect"]))**(1.0/3.0)}),
    ("cylinder", [["len2", "Ang", 300.0, [0, np.inf], "volume", "length"],
                  ["slender", "", 0.1, [0.01, 1.0], "volume", "radius:length"]],
     "length = len2\nradius = slender*len2",
     lambda p: {"length": p["len2"], "radius": p["slender"]*p["len2"]}),
    ("core_shell_sphere", [["outer", "Ang", 70.0, [0, np.inf], "volume", "outer radius"],
                           ["corefrac", "", 0.8, [0.0, 1.0], "volume", "core radius:outer radius"]],
     "rc_ = corefrac*outer\nradius = rc_\nthickness = outer - rc_",
     lambda p: {"radius": p["corefrac"]*p["outer"], "thickness": p["outer"] - p["corefrac"]*p["outer"]}),
]


def run_reparam_product(case, rec):
    """P given other shape parameters through core.reparameterize, then P@S: the effective radius handed to S and reported,
    and the intensity, are those of the base form factor at the translated parameters."""
    from sasmodels import core as sascore, direct_model, product
    base, new, text, pyt = REPARAM_P[case["j"]]
    S, k = case["S"], case["k"]
    rng = core.rng_for(case["seed"], PROP, "reparam", case["j"], S, k)
    binfo = sas.info(base)
    pinfo = sascore.reparameterize(binfo, new, text, name="rtm07_rep_%d" % case["j"])
    info = product.make_product_info(pinfo, sas.info(S))
    model = sascore.build_model(info, platform="dll")
    Bm, Sm = sas.build(base), sas.build(S)
    modes = binfo.radius_effective_modes or []
    q = [np.exp(rng.uniform(math.log(0.003), math.log(0.25), 5))]
    kern, bk, sk = model.make_kernel(q), Bm.make_kernel(q), Sm.make_kernel(q)
    for rep in range(4):
        newp = {n_[0]: float(n_[2]*rng.uniform(0.7, 1.4)) for n_ in new}
        for n_ in new:
            newp[n_[0]] = float(min(max(newp[n_[0]], n_[3][0] + 1e-3), n_[3][1] - (1e-3 if np.isfinite(n_[3][1]) else 0)))
        keep = {p_.name: float(rng.uniform(0.5, 6.0)) if p_.type == "sld" else float(p_.default)
                for p_ in pinfo.parameters.kernel_parameters if p_.name not in newp and p_.type != "orientation"}
        sp = s_pars(S, rng)
        scale, bg = float(rng.uniform(0.5, 2)), float(rng.uniform(0, 0.1))
        mode = 1 + (rep + k) % len(modes)
        beta = (rep // 2) % 2 if binfo.have_Fq else 0
        cp = dict(keep, **newp)
        cp.update(sp)
        cp.pop("radius_effective", None)
        cp.update(scale=scale, background=bg, radius_effective_mode=mode, structure_factor_mode=beta)
        I = np.asarray(direct_model.call_kernel(kern, dict(cp)), float)
        res = kern.results() if callable(getattr(kern, "results", None)) else {}
        bp = dict(keep, **pyt(newp))
        F1, F2, R, Vs, ratio = direct_model.call_Fq(bk, dict(bp, scale=1.0, background=0.0, radius_effective_mode=mode))
        vf = sp["volfraction"]
        # (S is evaluated at the reported effective radius when that agrees with the base model's to 1e-9 -- checked
        # below: hayter_msa turns a last-bit difference of its inputs into visible differences)
        rep_R = res.get("radius_effective")
        R_S = float(rep_R) if rep_R is not None and abs(float(rep_R) - float(R)) <= 1e-9*abs(float(R)) else float(R)
        Sq = np.asarray(direct_model.call_kernel(sk, dict(sp, scale=1.0, background=0.0, radius_effective=R_S,
                                                          volfraction=vf*float(ratio))), float)
        F1, F2 = np.asarray(F1, float), np.asarray(F2, float)
        exp = scale*vf/float(Vs)*(F2 + F1*F1*(Sq - 1.0) if beta else F2*Sq) + bg
        ctx = {"P": "%s reparameterised: %s" % (base, text), "S": S, "pars": cp, "base_pars": bp, "mode": mode,
               "mode_name": modes[mode - 1], "beta": beta, "q": q[0]}
        ok = core.close(I, exp, 1e-8, 1e-10*float(np.max(np.abs(exp))))
        rec.check("equals_documented_combination", ok,
                  None if ok else dict(ctx, observed=I, expected=exp, R_eff_of_base_model=float(R)), key="C07/reparameterised-P")
        if rep_R is not None:
            okr = abs(float(rep_R) - float(R)) <= 1e-9*abs(float(R))
            rec.check("reported_results_belong_to_their_evaluation", okr,
                      None if okr else dict(ctx, reported_radius_effective=float(rep_R), expected=float(R)),
                      key="C07/reparameterised-P")
        rec.bucket("P:reparameterised", "mode>0", "beta:%d" % beta)
        rec.set_shape(("reparam", case["j"], S, mode, beta), nontrivial=bool(np.any(np.abs(Sq - 1) > 1e-3)))


def run_sasview_beta2d(case, rec):
    """The SasView-style P@S object asked for the beta correction on 2-D data: the request is refused (the library does not
    offer it), or what comes back is the beta-corrected intensity -- which for a P without orientation is the 1-D answer
    of the same object at |q| -- never the plain P*S pattern under the beta switch."""
    from sasmodels import sasview_model
    P, S = case["P"], case["S"]
    rng = core.rng_for(case["seed"], PROP, "svbeta2d", P, S)
    m = sasview_model.MultiplicationModel(sasview_model._make_standard_model(P)(), sasview_model._make_standard_model(S)())
    for kk, vv in s_pars(S, rng).items():
        if kk in m.params and kk != "radius_effective":
            m.setParam(kk, vv)
    m.setParam("scale", float(rng.uniform(0.5, 2)))
    m.setParam("background", float(rng.uniform(0, 0.1)))
    m.setParam("radius_effective_mode", 1)
    # a size distribution, so that <F>^2 differs from <F^2> and the beta correction shows
    m.setParam("radius.width", float(rng.uniform(0.15, 0.3)))
    m.setParam("radius.npts", 9)
    m.setParam("radius.nsigmas", 2.0)
    m.cutoff = 0.0
    # pixels on the qx axis: |q| is then the same number in the 1-D and in the 2-D evaluation (hayter_msa turns a last-bit
    # difference of |q| into a visible one)
    qx = np.exp(rng.uniform(math.log(0.005), math.log(0.2), 5))
    qy = np.zeros(len(qx))
    out = {}
    for beta in (0, 1):
        m.setParam("structure_factor_mode", beta)
        one = np.asarray(m.evalDistribution(np.hypot(qx, qy)), float)
        try:
            two = np.asarray(m.evalDistribution([qx.copy(), qy.copy()]), float)
        except NotImplementedError:
            rec.bucket("sasview-2d-beta:refused")
            rec.check("beta_2d_refused_or_exact", True)
            continue
        ok = core.close(two, one, 1e-9, 1e-11*float(np.max(np.abs(one))))
        out[beta] = one
        if beta and 0 in out and core.close(out[0], one, 1e-4, 0.0):
            rec.inconclusive("the beta correction does not show for %s@%s at these parameters" % (P, S))
        rec.check("beta_2d_refused_or_exact" if beta else "equals_documented_combination", ok,
                  None if ok else {"P": P, "S": S, "entry": "SasView MultiplicationModel.evalDistribution([qx, qy])",
                                   "structure_factor_mode": beta, "returned": two, "same_object_1d_at_|q|": one},
                  key="C07/sasview-2d-beta-not-refused" if beta else None)
        rec.bucket("sasview-2d:beta-%d-evaluated" % beta)
    rec.set_shape(("svbeta2d", P, S), nontrivial=True)


def run_case(case, rec):
    if case.get("kind") == "svbeta2d":
        return run_sasview_beta2d(case, rec)
    if case.get("kind") == "reparam":
        return run_reparam_product(case, rec)
    if case.get("kind") == "mixed":
        return run_mixed(case, rec)
    if case.get("kind") == "hollowplugin":
        return run_hollow_plugin(case, rec)
    from sasmodels import core as sascore, direct_model
    P, S, k = case["P"], case["S"], case["k"]
    pi, si = sas.info(P), sas.info(S)
    info = product_info(P, S)
    rng = core.rng_for(case["seed"], PROP, P, S, k)
    ppars = sas.base_pars(pi, case["seed"]*41 + k)
    ppars.pop("scale", None)
    ppars.pop("background", None)
    spars = s_pars(S, rng)
    p_owns_vf = "volfraction" in pi.parameters
    modes = pi.radius_effective_modes or []
    have_beta = bool(pi.have_Fq)
    rec.bucket("S:" + S)
    if p_owns_vf:
        rec.bucket("P:owns_volfraction")
    if sas.is_python(pi):
        rec.bucket("P:python")
    elif sas.raw(pi)._defs.get("shell_volume"):
        rec.bucket("P:hollow")
    if not have_beta:
        rec.bucket("P:no_Fq")
    # table positions
    kp = list(info.parameters.kernel_parameters)
    npk = len(pi.parameters.kernel_parameters)
    p_names = [(c.id, o.id, o.length) for c, o in zip(kp[:npk], pi.parameters.kernel_parameters)]
    s_orig = [q for q in si.parameters.kernel_parameters if not (q.id == "volfraction" and p_owns_vf)]
    s_names = [(c.id, o.id) for c, o in zip(kp[npk:npk + len(s_orig)], s_orig)]
    extra = [c.id for c in kp[npk + len(s_orig):]]
    # P dispersity
    dims = ["1d", "2d"] if not case["allmodes"] else ["1d"]
    variants = []
    mode_list = list(range(0, len(modes) + 1)) if case["allmodes"] else sorted({0, int(rng.integers(0, len(modes) + 1)),
                                                                                  min(1, len(modes))})
    for mode in mode_list:
        for beta in ([0, 1] if have_beta else [0]):
            variants.append((mode, beta))
    if not case["allmodes"]:
        rng.shuffle(variants)
        variants = variants[:4]
    if case.get("bigmesh"):
        variants = [(m_, 0) for m_ in range(1, len(modes) + 1)][:3] or [(0, 0)]
        dims = [case["bigmesh"]]
    model = sascore.build_model(info, platform="dll")
    Pm, Sm = sas.build(P), sas.build(S)
    for vi, (mode, beta) in enumerate(variants):
        dim = dims[vi % len(dims)]
        pp = dict(ppars)
        pdP = (vi % 2 == 1) or case["allmodes"] or bool(case.get("bigmesh"))
        meshn = 1
        if pdP:
            cand = [p for p in sas.usable_pd(pi, pp, dim) if p.name != "volfraction"]
            rng.shuffle(cand)
            sizes = [[11, 10], [6], [4, 3], [15, 7]][(k + vi) % 4]
            if sas.eval_cost(pi, dim if not sas.is_python(pi) else "1d") > 2e-4 if not sas.is_python(pi) else False:
                sizes = [4, 3]
            if case.get("bigmesh"):
                sizes = [11, 10]
                cand = [p for p in cand if p.type != "orientation"]
                rec.bucket("bigmesh_mode>0_no_F1_branch")
            for p, n in zip(cand[:2], sizes):
                if p.type == "orientation":
                    sas.add_pd(pp, p, "gaussian", 3, 10.0, 2.0)
                    meshn *= 3
                else:
                    lo, hi = p.limits
                    v = pp[p.name]
                    room = min(abs(v - lo), abs(hi - v))/abs(v)
                    w = min(float(rng.uniform(0.05, 0.2)), 0.9*room/2.0)
                    if w > 0:
                        sas.add_pd(pp, p, ["gaussian", "schulz"][int(rng.integers(2))], n, w, 2.0)
                        meshn *= n
            rec.bucket("pd:P")
            if meshn > 100:
                rec.bucket("mesh>100")
        magnetic = False
        if dim == "2d" and (k + vi) % 2 == 1 and not sas.is_python(pi) and pi.parameters.nmagnetic > 0:
            # a magnetised form factor inside the product (the magnetic block follows P's and S's parameters and
            # the mode parameters in the combined table)
            slds_m = [p_.name for p_ in pi.parameters.call_parameters if p_.type == "sld" and p_.name in sas.active_names(pi, pp)]
            if slds_m:
                sm = slds_m[int(rng.integers(len(slds_m)))]
                pp[sm + "_M0"] = float(rng.uniform(0.5, 4.0))
                pp[sm + "_mtheta"], pp[sm + "_mphi"] = float(rng.uniform(-80, 80)), float(rng.uniform(-170, 170))
                pp.update(up_frac_i=float(rng.uniform(0, 1)), up_frac_f=float(rng.uniform(0, 1)),
                          up_theta=float(rng.uniform(0, 180)), up_phi=float(rng.uniform(0, 180)))
                magnetic = True
                rec.bucket("magnetic-P" + (":owns-volfraction" if p_owns_vf else ""))
        if beta == 1 and (k + vi) % 4 == 0 and not sas.is_python(pi):
            # contrast-matched particle: <F> = <F^2> = 0, the documented combination is exactly the background
            slds_p = [p_.name for p_ in pi.parameters.call_parameters if p_.type == "sld"]
            solv = [n_ for n_ in slds_p if "solvent" in n_]
            if slds_p and solv:
                for n_ in slds_p:
                    pp[n_] = pp[solv[0]]
                rec.bucket("contrast-matched:beta-on")
        sp = dict(spars)
        vf = pp["volfraction"] if p_owns_vf else sp["volfraction"]
        re_user = float(rng.uniform(20, 200))
        sp["radius_effective"] = re_user
        re_pd = (vi % 3 != 2) and S != "hardsphere"
        if re_pd:
            sp["radius_effective_pd"], sp["radius_effective_pd_n"] = float(rng.uniform(0.05, 0.3)), int(rng.integers(3, 9))
            sp["radius_effective_pd_nsigma"], sp["radius_effective_pd_type"] = 2.0, "gaussian"
            rec.bucket("pd:radius_effective")
        # combined parameter set, by table position
        scale, bg = float(rng.uniform(0.2, 3.0)), float(rng.uniform(0, 1))
        cp = {"scale": scale, "background": bg}
        for cname, oname, length in p_names:
            for ix in ([""] if length == 1 else [str(j) for j in range(1, length + 1)]):
                for suf in ("", "_pd", "_pd_n", "_pd_nsigma", "_pd_type"):
                    if oname + ix + suf in pp:
                        cp[cname + ix + suf] = pp[oname + ix + suf]
        for cname, oname in s_names:
            for suf in ("", "_pd", "_pd_n", "_pd_nsigma", "_pd_type"):
                if oname + suf in sp:
                    cp[cname + suf] = sp[oname + suf]
        if magnetic:
            for kk_, vv_ in pp.items():
                if kk_.endswith(("_M0", "_mtheta", "_mphi")) or kk_.startswith("up_"):
                    cp[kk_] = vv_
        if "structure_factor_mode" in extra:
            cp["structure_factor_mode"] = beta
        if "radius_effective_mode" in extra:
            cp["radius_effective_mode"] = mode
        size = sas.size_scale(pi, pp)
        if dim == "1d":
            q = [np.clip(np.exp(rng.uniform(math.log(0.05/size), math.log(6.0/size), 5)), 1e-6, 3.0)]
        else:
            qx, qy = sas.q_points_2d(pi, pp, 5, rng)
            q = [qx, qy]
        kernel = model.make_kernel(q)
        ctx = {"P": P, "S": S, "mode": mode, "beta": beta, "dim": dim, "pars": cp}
        rec.bucket("mode:0" if mode == 0 else "mode:>0", "beta:on" if beta else "beta:off", "dim:" + dim,
                   "lane:" + case.get("lane", "plain"))
        # a weight cutoff drops mesh points, so the retained weights no longer sum to one
        cut = float([1e-3, 1e-2][vi % 2]) if (pdP and (k + vi) % 3 == 0) else 0.0
        if cut:
            rec.bucket("cutoff>0")
        ctx["cutoff"] = cut
        try:
            I = np.asarray(direct_model.call_kernel(kernel, dict(cp), cutoff=cut), float)
        except NotImplementedError:
            rec.check("beta_2d_refused", beta == 1 and dim == "2d", ctx)
            continue
        if beta == 1 and dim == "2d":
            rec.check("beta_2d_refused", False, dict(ctx, returned=I))
            continue
        results = kernel.results()
        results_later = kernel.results          # the evaluator of THIS evaluation, called again further down
        # --- oracle: separate P and S calls
        kP = Pm.make_kernel(q)
        F1, F2, Reff, Vs, ratio = direct_model.call_Fq(kP, dict(pp, radius_effective_mode=mode, scale=1.0, background=0.0),
                                                       cutoff=cut)
        F2 = np.asarray(F2, float)
        kS = Sm.make_kernel(q)
        so = dict(sp, scale=1.0, background=0.0, volfraction=vf*ratio)
        if mode > 0:
            so["radius_effective"] = float(Reff)
            for suf in ("_pd", "_pd_n", "_pd_nsigma", "_pd_type"):
                so.pop("radius_effective" + suf, None)
        Sq = np.asarray(direct_model.call_kernel(kS, so, cutoff=cut), float)
        PS = F2 + np.asarray(F1, float)**2*(Sq - 1) if beta else F2*Sq
        exp = scale/Vs*(1.0 if p_owns_vf else vf)*PS + bg
        sc = float(np.max(np.abs(exp - bg)))
        ok = core.close(I, exp, 1e-10, 1e-12*sc)
        rec.check("equals_documented_combination", ok,
                  None if ok else dict(ctx, observed=I, expected=exp, R_eff=float(Reff), V_shell=float(Vs), ratio=float(ratio),
                                       S=Sq, max_rel_err=core.maxrel(I, exp, 1e-12*sc)))
        rec.check("no_stale_result", not sas.has_poison(I), ctx)
        # --- results(): the reported intermediates are the ones used
        PQ = np.asarray(results["P(Q)"][1], float)
        SQ = np.asarray(results["S(Q)"][1], float)
        Seff = np.asarray(results["S_eff(Q)"][1], float) if beta else SQ
        # where P(Q) is exactly zero beta = <F>^2/<F^2> is 0/0 (undefined, reported as NaN); P*S_eff is zero there
        with np.errstate(all="ignore"):
            recon = np.where((PQ == 0) & np.isfinite(SQ), bg, PQ*Seff + bg)
        rec.check("results_reproduce_intensity", core.close(recon, I, 1e-12, 1e-13*sc),
                  dict(ctx, P_times_S_plus_bg=recon, returned=I))
        rec.check("reported_volume_is_P_shell_volume", abs(results["volume"] - Vs) <= 1e-12*abs(Vs)
                  and abs(results["volume_ratio"] - ratio) <= 1e-12*abs(ratio),
                  dict(ctx, reported=[results["volume"], results["volume_ratio"]], P=[float(Vs), float(ratio)]))
        rep_R = float(results["radius_effective"])
        if not sas.is_python(pi):
            # the radius S was evaluated at is the documented weighted mean over P's mesh (weights as retained by
            # the cutoff, times |cos dtheta| under jitter), computed here from the model's own C functions
            mesh = direct_model.get_mesh(pi, dict(pp, scale=1.0, background=0.0), dim=dim)
            q1 = [float(q[0][0])] if dim == "1d" else ([float(q[0][0])], [float(q[1][0])])
            ev = sas.Oracle(pi).evaluate(mesh, q1, dim, cut, mode)
            if ev["weight"] > 0 and mode > 0:
                okR = abs(rep_R - ev["radius"]) <= 1e-9*abs(ev["radius"]) + 1e-300
                rec.check("S_radius_is_weighted_mean_of_P_radius", okR,
                          None if okR else dict(ctx, reported_radius_effective=rep_R, weighted_mean=ev["radius"],
                                                total_weight=ev["weight"], mesh_points=ev["n"]))
            if ev["weight"] > 0 and ev["shell"] != 0:
                okV = abs(float(results["volume_ratio"]) - ev["form"]/ev["shell"]) <= 1e-9*abs(ev["form"]/ev["shell"])
                rec.check("S_volfraction_ratio_is_ratio_of_weighted_volumes", okV,
                          None if okV else dict(ctx, reported_ratio=float(results["volume_ratio"]),
                                                expected=ev["form"]/ev["shell"]))
                if abs(ev["weight"] - 1.0) > 1e-6:
                    rec.bucket("retained_weights_do_not_sum_to_one")
        if mode > 0:
            s2 = dict(so, radius_effective=rep_R, volfraction=vf*float(results["volume_ratio"]))
            S2 = np.asarray(direct_model.call_kernel(kS, s2, cutoff=cut), float)
            rec.check("reported_S_is_S_at_reported_inputs", core.close(SQ, S2, 1e-12, 1e-14),
                      dict(ctx, reported_S=SQ, S_at_reported=S2, reported_radius_effective=rep_R))
        else:
            rec.check("reported_S_is_S_at_reported_inputs", core.close(SQ, Sq, 1e-12, 1e-14),
                      dict(ctx, reported_S=SQ, independent_S=Sq))
        rec.set_shape((P, S, mode, beta, dim, sorted(kk for kk in cp if kk.endswith("_pd_n"))),
                      nontrivial=bool(np.any(np.abs(Sq - 1) > 1e-6)))
        if vi == 0 and k < 30:
            rec.observe(P=P, S=S, mode=mode, beta=beta, I=I, expected=exp, R_eff=float(Reff), V_shell=float(Vs))
        # --- with the effective radius taken from the form factor (mode > 0) the structure factor's own radius entry is
        # not used: whatever was left in it (a value outside its limits, a distribution with no point inside them)
        # changes nothing
        if mode > 0 and not (beta == 1 and dim == "2d") and "radius_effective" in info.parameters:
            cpl = dict(cp, radius_effective=-abs(float(cp.get("radius_effective", 50.0))) - 1.0)
            if info.parameters["radius_effective"].polydisperse:
                cpl.update(radius_effective_pd=0.1, radius_effective_pd_n=5, radius_effective_pd_nsigma=2.0)
            try:
                Il = np.asarray(direct_model.call_kernel(kernel, dict(cpl), cutoff=cut), float)
                okl = core.close(Il, I, 1e-12, 1e-14*float(np.nanmax(np.abs(I))) if np.any(np.isfinite(I)) else 0.0)
            except Exception as exc:
                Il, okl = repr(exc), False
            rec.check("equals_documented_combination", okl,
                      None if okl else dict(ctx, note="mode %d: left-over radius_effective outside its limits with a distribution" % mode,
                                            left_over={kk: cpl[kk] for kk in cpl if kk.startswith("radius_effective")},
                                            observed=Il, with_ordinary_left_over=I))
            rec.bucket("mode>0:unused-radius-entry-outside-limits")
        # --- the same kernel object again with only the effective-radius mode (and then only beta) changed:
        # nothing computed for the previous request may be reused for a different one
        if "radius_effective_mode" in extra and len(modes) >= 1 and not (beta == 1 and dim == "2d"):
            for mode2 in sorted({(mode % len(modes)) + 1, 0} - {mode})[:2]:
                cp2 = dict(cp, radius_effective_mode=mode2)
                I2 = np.asarray(direct_model.call_kernel(kernel, dict(cp2), cutoff=cut), float)
                rep2 = float(kernel.results()["radius_effective"])
                F1b, F2b, Reffb, Vsb, ratiob = direct_model.call_Fq(
                    kP, dict(pp, radius_effective_mode=mode2, scale=1.0, background=0.0), cutoff=cut)
                sob = dict(sp, scale=1.0, background=0.0, volfraction=vf*ratiob)
                if mode2 > 0:
                    sob["radius_effective"] = float(Reffb)
                    for suf in ("_pd", "_pd_n", "_pd_nsigma", "_pd_type"):
                        sob.pop("radius_effective" + suf, None)
                Sqb = np.asarray(direct_model.call_kernel(kS, sob, cutoff=cut), float)
                F2b = np.asarray(F2b, float)
                PSb = F2b + np.asarray(F1b, float)**2*(Sqb - 1) if beta else F2b*Sqb
                expb = scale/Vsb*(1.0 if p_owns_vf else vf)*PSb + bg
                okb = core.close(I2, expb, 1e-10, 1e-12*float(np.max(np.abs(expb - bg))))
                rec.check("equals_documented_combination", okb,
                          None if okb else dict(ctx, note="same kernel, only radius_effective_mode changed %d -> %d" % (mode, mode2),
                                                observed=I2, expected=expb, reported_radius_effective=rep2,
                                                R_eff_for_new_mode=float(Reffb)))
                rec.bucket("sequence:mode-changed-on-same-kernel")
            # the evaluator handed out with the first evaluation still reports that evaluation
            late = results_later()
            same = (np.array_equal(np.asarray(late["P(Q)"][1]), np.asarray(results["P(Q)"][1]), equal_nan=True)
                    and np.array_equal(np.asarray(late["S(Q)"][1]), np.asarray(results["S(Q)"][1]), equal_nan=True)
                    and float(late["volume"]) == float(results["volume"])
                    and float(late["radius_effective"]) == float(results["radius_effective"])
                    and float(late["volume_ratio"]) == float(results["volume_ratio"]))
            rec.check("reported_results_belong_to_their_evaluation", same,
                      None if same else dict(ctx, first_call={"S(Q)": results["S(Q)"][1], "radius_effective": results["radius_effective"],
                                                              "volume": results["volume"]},
                                             same_evaluator_after_later_evaluations={"S(Q)": late["S(Q)"][1],
                                                                                     "radius_effective": late["radius_effective"],
                                                                                     "volume": late["volume"]}))
        for kk in (kernel, kP, kS):
            kk.release()


LEVEL_TEXT = ("The real P@S kernels (every accepted form factor, four structure factors, all effective-radius modes on a "
              "sub-grid, beta on/off, dispersity on P and on radius_effective, 1-D/2-D) are compared with the documented "
              "combination of independent call_Fq(P) and call_kernel(S) results on separately built models; results() "
              "is checked to report the intermediates actually used; reduced copy under ASan/UBSan.")
LEVEL_NOTE = "Trusts P alone and S alone (covered by C01); parameters mapped by table position; user-written S not generated."
TECHNIQUE = "differential reference monitor (separate P and S calls recombined as documented) + consistency monitors on results() + ASan/UBSan lane"
