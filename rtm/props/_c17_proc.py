"""
Participant of the C17 check: a (possibly long-running) process that loads the probe plugin with the real
core.load_model and evaluates it; every make_dll call is logged as (sha256(source), itemsize) -> path.
Commands are JSON lines on stdin: {"op": "eval", "dtype": "double"} ; {"op": "quit"}.
"""
import hashlib
import json
import os
import sys

import numpy as np

plugin = sys.argv[1]
from sasmodels import core, kerneldll, direct_model  # noqa: E402  (PYTHONPATH points at the scratch package)

log = []
_orig = kerneldll.make_dll


def make_dll(source, model_info, dtype=kerneldll.F64, system=False):
    path = _orig(source, model_info, dtype=dtype, system=system)
    log.append([hashlib.sha256(source.encode()).hexdigest()[:16], int(np.dtype(dtype).itemsize), os.path.basename(path)])
    return path


kerneldll.make_dll = make_dll

for line in sys.stdin:
    cmd = json.loads(line)
    if cmd["op"] == "quit":
        break
    out = {}
    kerneldll.ALLOW_SINGLE_PRECISION_DLLS = not cmd.get("noflag")
    if cmd.get("interrupt"):
        # the user interrupts this load while the definition file is being executed (if it is executed at all)
        os.environ["RTM17_INTERRUPT"] = "1"
    try:
        q = np.array([0.1, 0.2, 0.3, 0.4, 0.5, 0.6])
        if cmd.get("ngauss"):
            # a load that asks for another integration size (what compare's -ngauss option does)
            from sasmodels import generate
            info = core.load_model_info(plugin)
            generate.set_integration_size(info, int(cmd["ngauss"]))
            model = core.build_model(info, dtype=cmd["dtype"], platform="dll")
            I = direct_model.call_kernel(model.make_kernel([q]), {"background": 0.0})
            out["values"] = [float(v) for v in I]
        elif cmd.get("via") == "nested":
            # a plugin file that itself loads the probe plugin while it is being loaded (SasView sum-model files)
            combo = os.path.join(os.path.dirname(plugin), "combo.py")
            model = core.load_model(combo, dtype=cmd["dtype"], platform="dll")
            I = direct_model.call_kernel(model.make_kernel([q]), {"background": 0.0, "A_scale": 1.0, "B_scale": 0.0})
            out["values"] = [float(v) for v in I]
        elif cmd.get("via") == "modelpath":
            # the plugin named by its bare name (found through SAS_MODELPATH, as SasView's plugin directory is) as a
            # component of a model expression
            os.environ["SAS_MODELPATH"] = os.path.dirname(plugin)
            bare = os.path.basename(plugin)[:-3]
            expr = [bare + "+sphere", bare + "+" + bare][int(cmd.get("variant", 0)) % 2]
            model = core.load_model(expr, dtype=cmd["dtype"], platform="dll")
            I = direct_model.call_kernel(model.make_kernel([q]), {"background": 0.0, "A_scale": 1.0, "B_scale": 0.0})
            out["values"] = [float(v) for v in I]
        elif cmd.get("via") == "twin":
            # the plugin plus a file of the same name kept in another directory (an older copy), as the two terms of a sum
            twin = os.path.join(os.path.dirname(os.path.dirname(plugin)), "twin", os.path.basename(plugin))
            model = core.load_model(plugin + "+" + twin, dtype=cmd["dtype"], platform="dll")
            kern = model.make_kernel([q])
            I = direct_model.call_kernel(kern, {"background": 0.0, "A_scale": 1.0, "B_scale": 0.0})
            out["values"] = [float(v) for v in I]
            I2 = direct_model.call_kernel(kern, {"background": 0.0, "A_scale": 0.0, "B_scale": 1.0})
            out["values_twin"] = [float(v) for v in I2]
        elif cmd.get("via") == "composite":
            # the plugin as one component of a model expression whose other component is flagged double-only
            model = core.load_model(plugin + "+hardsphere", dtype=cmd["dtype"], platform="dll")
            I = direct_model.call_kernel(model.make_kernel([q]), {"background": 0.0, "A_scale": 1.0, "B_scale": 0.0})
            out["values"] = [float(v) for v in I]
        elif cmd.get("via") == "sasview":
            # the SasView wrapper's own loader (it keeps the compiled model on the class it creates)
            from sasmodels import sasview_model
            Model = sasview_model.load_custom_model(plugin)
            m = Model()
            m.setParam("background", 0.0)
            I = m.evalDistribution(q)
            # the parameter default is carried by the class, not by I(q): report it in the last slot as I(q) does
            out["values"] = [float(v) for v in I]
        else:
            model = core.load_model(plugin, dtype=cmd["dtype"], platform="dll")
            kernel = model.make_kernel([q])
            I = direct_model.call_kernel(kernel, {"background": 0.0})
            out["values"] = [float(v) for v in I]
            out["dll"] = os.path.basename(model.dllpath)
        out["package"] = os.path.dirname(core.__file__)
    except KeyboardInterrupt:
        out["interrupted"] = True
    except Exception as exc:
        import traceback
        out["error"] = repr(exc)[:400]
        out["tb"] = traceback.format_exc()[-1200:]
    finally:
        os.environ.pop("RTM17_INTERRUPT", None)
    out["make_dll_log"] = list(log)
    del log[:]
    print("RTM17 " + json.dumps(out))
    sys.stdout.flush()
