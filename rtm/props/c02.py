"""
C02 - distribution weights match their documented densities, limits and widths.

Contracts (icontract post-conditions) are attached to the real
``sasmodels.weights.get_weights``; every call made during the run - directly by
the workload or indirectly through ``direct_model.get_mesh`` and
``SasviewModel._get_weights`` - is judged against densities from scipy.stats.
"""
from __future__ import annotations

import math
import os
import time
import sys

import numpy as np

from rtm import core

PROP = "C02"
LEVEL = "exploration"
RULE = ("Draws of (type, centre, PD, npts, nsigmas, lb, ub, relative) from the property's quantifier "
        "(6 parametric types, centre log-uniform [1e-1,1e4], PD log-uniform [1e-3,2], npts 1..200, "
        "nsigmas 0.5..10, limits cutting none/lower/upper/both tails, relative and absolute width) "
        "passed to the real weights.get_weights under post-condition contracts, plus get_mesh / "
        "SasviewModel._get_weights on every dispersible parameter of every builtin model.  "
        "Distinct: hash of (type, relative, truncation class, npts, points kept, log10-bins of "
        "centre/PD/nsigmas).  Non-trivial: at least two points are returned or the draw is a "
        "degenerate/empty one the statement names (zero width, npts<2, all points cut).")
ASSUMPTIONS = [
    "scipy.stats densities (norm, lognorm, gamma, laplace, uniform) are the documented densities",
    "lognormal/schulz are not drawn with absolute width (centre 0 has no such density)",
    "centres lie inside the hard limits, as the quantifier says",
]
REQUIRED_MONITORS = ["increasing", "inside_limits", "inside_support", "weights_finite_nonneg",
                     "weights_sum_to_one", "proportional_to_density", "degenerate_single_point",
                     "model_layer_centre_width", "contract_evaluations", "mesh_is_get_weights_for_this_parameter",
                     "mesh_inside_parameter_limits"]
REQUIRED_BUCKETS = {
    "quick": ["type:gaussian", "type:lognormal", "type:schulz", "type:boltzmann", "type:uniform",
              "type:rectangle", "cut:none", "cut:lower", "cut:upper", "cut:both", "relative", "absolute",
              "degenerate:zero_width", "degenerate:npts<2", "layer:get_mesh", "layer:sasview", "layer:shared-name-sequence", "layer:set_dispersion-shared-object", "layer:one-setting-changed-sequence", "layer:vector-element", "layer:fewer-than-two-points-with-width", "layer:set_dispersion-zero-width-after-width", "cut:symmetric", "layer:composite-kernel-1d", "layer:composite-kernel-2d", "layer:view-angle-beyond-a-whole-turn", "layer:structure-factor-after-product-built",
              "partype:volume", "partype:orientation"],
}
REQUIRED_BUCKETS["thorough"] = REQUIRED_BUCKETS["quick"]

TYPES = ["gaussian", "lognormal", "schulz", "boltzmann", "uniform", "rectangle"]
SQRT3 = math.sqrt(3.0)

_state = {"installed": False, "contract_evals": 0, "current": None}


class PostBroken(Exception):
    pass


# ---------------------------------------------------------------------------
# the judge: called from the contract with the real arguments and result
# ---------------------------------------------------------------------------

def log_density(disperser, x, center, sigma):
    from scipy import stats
    if disperser == "gaussian":
        return stats.norm.logpdf(x, loc=center, scale=sigma)
    if disperser == "lognormal":
        return stats.lognorm.logpdf(x, s=abs(sigma/center), scale=center)
    if disperser == "schulz":
        pd = sigma/center
        return stats.gamma.logpdf(x, a=1.0/pd**2, scale=center*pd**2)
    if disperser == "boltzmann":
        return stats.laplace.logpdf(x, loc=center, scale=abs(sigma))
    if disperser in ("uniform", "rectangle"):
        return np.zeros_like(x)
    raise KeyError(disperser)


def judge(rec, disperser, n, width, nsigmas, value, limits, relative, result):
    """All monitors of the statement on one real call."""
    v, w = result
    v = np.asarray(v, float)
    w = np.asarray(w, float)
    lb, ub = float(limits[0]), float(limits[1])
    center = float(value) if relative else 0.0
    sigma = float(width)*float(value) if relative else float(width)
    info = {"type": disperser, "n": n, "width": width, "nsigmas": nsigmas, "value": value,
            "limits": [lb, ub], "relative": bool(relative)}

    # mechanism flag for the classifier: every retained point has a density below the smallest double, so the
    # library's px/sum(px) is 0/0
    underflow = False
    if len(v) and not (sigma == 0 or int(n) < 2):
        with np.errstate(all="ignore"):
            lf = log_density(disperser, v, center, sigma)
        underflow = bool(np.all(np.isnan(w)) and np.all(lf < -745.2))

    def chk(name, ok, **extra):
        d = None
        if not ok:
            d = dict(info, values=v[:12], weights=w[:12], npoints=len(v), **extra)
            if underflow:
                d["all_retained_densities_underflow"] = True
        return rec.check(name, ok, d)

    degenerate = (sigma == 0 or int(n) < 2)
    if degenerate:
        if lb <= center <= ub:
            chk("degenerate_single_point",
                len(v) == 1 and len(w) == 1 and v[0] == center and w[0] == 1.0)
        else:
            chk("degenerate_single_point", len(v) == 0)
        return
    if len(v) == 0:
        rec.count("empty_after_truncation")
        # vacuous except that the window really has no point inside the limits
        if disperser == "uniform":
            lo, hi = center - abs(sigma), center + abs(sigma)
        else:
            lo, hi = center - nsigmas*abs(sigma), center + nsigmas*abs(sigma)
        pts = np.linspace(lo, hi, int(n))
        lo_lim = max(lb, 1e-8) if disperser in ("lognormal", "schulz") else lb
        inside = pts[(pts >= lo_lim) & (pts <= ub)]
        if disperser == "rectangle":
            inside = inside[np.abs(inside - center) <= SQRT3*abs(sigma)*(1+1e-12)]
        # allow for rounding at the very edge
        strictly = inside[(inside > lo_lim + 1e-9*abs(lo_lim)) & (inside < ub - 1e-9*abs(ub))]
        chk("no_point_lost", len(strictly) == 0, expected_points=inside[:5])
        return
    chk("increasing", bool(np.all(np.diff(v) > 0)))
    chk("inside_limits", bool(np.all(v >= lb) and np.all(v <= ub)))
    # support of the distribution itself
    s = abs(sigma)
    eps = 1e-12*(abs(center) + s*max(1.0, float(nsigmas or 1)))
    if disperser == "uniform":
        half = s
    elif disperser == "rectangle":
        half = min(SQRT3*s, nsigmas*s)
    else:
        half = nsigmas*s
    ok = bool(np.all(v >= center - half - eps) and np.all(v <= center + half + eps))
    if disperser in ("lognormal", "schulz"):
        ok = ok and bool(np.all(v > 0))
    chk("inside_support", ok, half_width=half, center=center)
    if center == 0.0 and lb == -ub and disperser not in ("lognormal", "schulz"):
        # a symmetric density on a symmetric mesh cut by symmetric limits: the kept points and their weights are
        # symmetric about the centre (both limits are treated alike, a point on a limit included)
        sym = len(v) > 0 and bool(np.allclose(v, -v[::-1], rtol=0, atol=1e-9*max(1.0, abs(ub) if np.isfinite(ub) else 1.0))
                                  and np.allclose(w, w[::-1], rtol=1e-9, atol=1e-300))
        chk("symmetric_limits_symmetric_mesh", sym)
    chk("weights_finite_nonneg", bool(np.all(np.isfinite(w)) and np.all(w >= 0)))
    chk("weights_sum_to_one", abs(float(np.sum(w)) - 1.0) <= 1e-12, total=float(np.sum(w)))
    # proportional to the documented density
    with np.errstate(all="ignore"):
        logf = log_density(disperser, v, center, sigma)
        keep = (w > 1e-290) & np.isfinite(logf)
        if keep.sum() >= 2:
            d = np.log(w[keep]) - logf[keep]
            # cancellation scale of the two evaluations (large shape parameters)
            scale = 0.0
            if disperser == "schulz":
                z = (center/sigma)**2
                scale = z*abs(math.log(z)) + z*float(np.max(v/center)) + abs(float(math.lgamma(z)))
            tol = 1e-9 + 256*np.finfo(float).eps*scale
            chk("proportional_to_density", float(np.max(d) - np.min(d)) <= tol,
                spread=float(np.max(d) - np.min(d)), tol=tol)
        elif disperser in ("uniform", "rectangle") or len(v) < 2:
            chk("proportional_to_density", bool(np.all(w == w[0])) if len(w) else True)
    # documented mesh: n points spanning +-nsigmas*sigma when nothing is cut
    if disperser == "uniform":
        lo, hi = center - s, center + s
    else:
        lo, hi = center - nsigmas*s, center + nsigmas*s
    lo_lim = max(lb, 1e-8) if disperser in ("lognormal", "schulz") else lb
    if lo > lo_lim and hi < ub and not (disperser == "rectangle" and nsigmas > SQRT3):
        span_tol = 1e-9*(abs(center) + hi - lo)
        chk("untruncated_count_and_span",
            len(v) == int(n) and abs(v[0] - lo) <= span_tol and abs(v[-1] - hi) <= span_tol,
            window=[lo, hi])
    else:
        # every mesh point inside the limits takes part
        pts = np.linspace(lo, hi, int(n))
        inside = pts[(pts > lo_lim + 1e-9*max(abs(lo_lim), s)) & (pts < ub - 1e-9*max(abs(ub), s))]
        if disperser == "rectangle":
            inside = inside[np.abs(inside - center) < SQRT3*s*(1-1e-9)]
        chk("no_point_lost", len(v) >= len(inside), expected_at_least=len(inside))


def install_contract():
    """icontract post-condition on the real weights.get_weights."""
    if _state["installed"]:
        return
    import icontract
    from sasmodels import weights

    def judged(disperser, n, width, nsigmas, value, limits, relative, result):
        _state["contract_evals"] += 1
        rec = _state["current"]
        if rec is not None:
            rec.seen("contract_evaluations")
            judge(rec, disperser, n, width, nsigmas, value, limits, relative, result)
        return True

    weights.get_weights = icontract.ensure(judged, error=PostBroken)(weights.get_weights)
    _state["installed"] = True


_defaults0 = {}


def worker_init(tier, seed):
    install_contract()
    from sasmodels import weights
    if not _defaults0:
        for t_, cls in weights.MODELS.items():
            _defaults0[t_] = dict(cls.default)


def check_defaults(rec, where):
    """A freshly constructed disperser of each type has that type's documented defaults (width 0), whatever was
    constructed or evaluated before in this process."""
    from sasmodels import weights
    for t_, cls in weights.MODELS.items():
        if t_ == "array" or t_ not in _defaults0:
            continue
        fresh = cls().get_pars()
        want = _defaults0[t_]
        same = all(fresh.get(k_) == want.get(k_) for k_ in ("npts", "width", "nsigmas")) and dict(cls.default) == want
        rec.check("fresh_disperser_has_type_defaults", same and want.get("width") == 0,
                  {"type": t_, "after": where, "fresh": {k_: fresh.get(k_) for k_ in ("npts", "width", "nsigmas")},
                   "documented": want, "class_default_now": dict(cls.default)})


# ---------------------------------------------------------------------------
# generators
# ---------------------------------------------------------------------------

def draw(rng, force=None):
    force = force or {}
    t = force.get("type") or TYPES[int(rng.integers(len(TYPES)))]
    relative = force.get("relative")
    if relative is None:
        relative = bool(rng.random() < 0.65)
    if t in ("lognormal", "schulz"):
        relative = True
    c = float(10**rng.uniform(-1, 4))
    pd = float(10**rng.uniform(-3, math.log10(2.0)))
    n = int(rng.integers(1, 201)) if rng.random() < 0.7 else int(rng.integers(2, 12))
    ns = float(rng.uniform(0.5, 10.0))
    if not relative:
        # angles: centre value is the view angle, width in degrees
        c = float(rng.uniform(-180, 180))
        pd = float(10**rng.uniform(-1, 1.7))
    deg = force.get("degenerate")
    if deg == "zero_width":
        pd = 0.0
    elif deg == "npts<2":
        n = int(rng.integers(0, 2))
    center = c if relative else 0.0
    sigma = pd*c if relative else pd
    half = abs(sigma) if t == "uniform" else abs(sigma)*ns
    cut = force.get("cut") or ["none", "lower", "upper", "both"][int(rng.integers(4))]
    f1, f2 = rng.uniform(0.02, 0.98, 2)
    lb, ub = -np.inf, np.inf
    if cut in ("lower", "both"):
        lb = center - f1*half
    if cut in ("upper", "both"):
        ub = center + f2*half
    if cut == "none" and relative and rng.random() < 0.5:
        lb = 0.0
    if rng.random() < 0.05 and cut != "none":
        # limits so tight that only few points survive
        w = half*10**rng.uniform(-3, -1)
        lb, ub = center - w*rng.random(), center + w*rng.random()
        cut = "both"
    if force.get("symmetric") and not relative and deg is None:
        # angular jitter with symmetric limits; in half of the cases the outermost kept grid points lie exactly
        # on the limits (binary-exact width, span and point count: e.g. width 120, 3 sigma, limits +-360)
        n = int(2**rng.integers(1, 7)) + 1
        pd = float(2.0**rng.integers(-2, 7))
        ns = float(rng.choice([1.0, 2.0, 4.0]))
        half = pd if t == "uniform" else pd*ns
        if rng.random() < 0.5:
            j = int(rng.integers(0, (n - 1)//2 + 1))
            L = half - j*(2*half/(n - 1))            # exactly a grid point
            if L == 0:
                L = half
        else:
            L = half*float(rng.uniform(0.2, 1.5))
        lb, ub, cut = -L, L, "symmetric"
    return {"type": t, "n": n, "width": pd, "nsigmas": ns, "value": c,
            "limits": [float(lb), float(ub)], "relative": relative, "cut": cut,
            "degenerate": deg}


def gen_cases(tier, seed):
    nbatch, per = (40, 500) if tier == "quick" else (400, 2500)
    cases = []
    for b in range(nbatch):
        cases.append({"id": "direct/%03d" % b, "kind": "direct", "batch": b, "n": per,
                      "seed": seed, "group": "direct/%03d" % b, "cost": per/500.0})
    from sasmodels import core as sascore
    models = sorted(sascore.list_models())
    for m in models:
        cases.append({"id": "layer/" + m, "kind": "layer", "model": m, "seed": seed,
                      "group": "layer/" + m, "cost": 0.3})
    # identical dispersity settings issued in sequence to every model that shares a parameter name
    nseq = 6 if tier == "quick" else 60
    for k in range(nseq):
        cases.append({"id": "shared/%02d" % k, "kind": "shared", "k": k, "seed": seed, "group": "shared/%02d" % k,
                      "cost": 2.0})
    for k, expr in enumerate(COMPOSITES if tier == "quick" else COMPOSITES*4):
        cases.append({"id": "composite/%02d" % k, "kind": "composite", "k": k, "expr": expr, "seed": seed,
                      "group": "composite/%02d" % k, "cost": 2.0})
    if tier == "thorough":
        cases.append({"id": "suite/under-contract", "kind": "suite", "group": "suite", "cost": 40})
    return cases


def _f(x):
    return float(x) if not isinstance(x, str) else float(x.replace("inf", "inf"))


def run_direct(case, rec):
    from sasmodels import weights
    rng = core.rng_for(case["seed"], PROP, "direct", case["batch"])
    forced = []
    for t in TYPES:
        forced.append({"type": t})
    for cut in ("none", "lower", "upper", "both"):
        forced.append({"cut": cut})
    forced += [{"relative": False, "symmetric": True, "type": tt} for tt in ("gaussian", "uniform", "rectangle", "boltzmann")]
    forced += [{"relative": True}, {"relative": False}, {"degenerate": "zero_width"},
               {"degenerate": "npts<2"}, {"degenerate": "zero_width", "relative": False}]
    for k in range(case["n"]):
        d = draw(rng, forced[k] if k < len(forced) else ({"relative": False, "symmetric": True} if k % 10 == 9 else None))
        _state["current"] = rec
        before = _state["contract_evals"]
        try:
            v, w = weights.get_weights(d["type"], d["n"], d["width"], d["nsigmas"],
                                       d["value"], d["limits"], d["relative"])
        finally:
            _state["current"] = None
        rec.check("contract_reached", _state["contract_evals"] == before + 1, d)
        npts = len(v)
        degenerate = d["width"] == 0 or d["n"] < 2
        rec.bucket("type:" + d["type"], "cut:" + d["cut"],
                   "relative" if d["relative"] else "absolute")
        if d["width"] == 0:
            rec.bucket("degenerate:zero_width")
        if d["n"] < 2:
            rec.bucket("degenerate:npts<2")
        if npts == 0:
            rec.bucket("points:0")
        elif npts == 1:
            rec.bucket("points:1")
        elif npts == 2:
            rec.bucket("points:2")
        shape = (d["type"], d["relative"], d["cut"], d["n"], npts,
                 round(math.log10(abs(d["value"]) + 1e-9)), round(2*math.log10(d["width"] + 1e-9)),
                 round(d["nsigmas"]))
        rec.set_shape(shape, nontrivial=(npts >= 2 or degenerate or npts == 0))
        if k < 2:
            rec.observe(**{"draw%d" % k: dict(d, values=v[:6], weights=w[:6], npoints=npts)})


def _infer(points):
    """Centre and sigma of an untruncated gaussian mesh of 11 points, nsigmas 2."""
    p = np.asarray(points, float)
    return 0.5*(p[0] + p[-1]), (p[-1] - p[0])/(2*2.0)


def run_layer(case, rec):
    """direct_model.get_mesh and SasviewModel._get_weights on every dispersible parameter."""
    from sasmodels import core as sascore, direct_model, sasview_model, weights
    name = case["model"]
    info = sascore.load_model_info(name)
    rng = core.rng_for(case["seed"], PROP, "layer", name)
    Model = sasview_model._make_standard_model(name)
    if info.structure_factor:
        # a P@S product has been built with this structure factor earlier in the process (SasView does so whenever a
        # structure factor is selected); the stand-alone structure factor keeps its own distributions
        try:
            sasview_model.MultiplicationModel(sasview_model._make_standard_model("sphere")(), Model())
            sasview_model.MultiplicationModel(sasview_model._make_standard_model("cylinder")(), Model())
            rec.bucket("layer:structure-factor-after-product-built")
        except Exception as exc:
            rec.check("model_layer_centre_width", False, {"model": name, "note": "MultiplicationModel could not be built", "exception": repr(exc)})
    npd = 0
    for p in info.parameters.call_parameters:
        if not p.polydisperse:
            continue
        npd += 1
        pd = float(10**rng.uniform(-2, -0.7))
        lo, hi = p.limits
        if p.type == "orientation":
            value = float(rng.uniform(max(lo, -170), min(hi, 170)))
            width = float(rng.uniform(1, 20))
            exp_c, exp_s = 0.0, width
            if not (lo < -2*width and hi > 2*width):
                width = 0.2*min(abs(lo), abs(hi))
                exp_s = width
        else:
            value = p.default if (np.isfinite(p.default) and p.default > 0) else 10.0
            value = float(value*rng.uniform(0.8, 1.2))
            value = min(max(value, lo + 1e-6), hi - 1e-6) if np.isfinite(hi) else max(value, lo + 1e-6)
            width = pd
            # keep the +-2 sigma window inside the limits
            room = min(value - lo, hi - value)
            if 2*width*abs(value) >= room:
                width = 0.4*room/abs(value)
            exp_c, exp_s = value, width*abs(value)
        if width <= 0:
            rec.count("layer_skipped_no_room")
            continue
        rec.bucket("partype:" + p.type)
        # --- direct_model.get_mesh
        for dim in ("1d", "2d"):
            active = p.name in (info.parameters.pd_1d if dim == "1d" else info.parameters.pd_2d)
            pars = {p.name: value, p.name + "_pd": width, p.name + "_pd_n": 11,
                    p.name + "_pd_nsigma": 2.0, p.name + "_pd_type": "gaussian"}
            _state["current"] = rec
            try:
                mesh = direct_model.get_mesh(info, pars, dim=dim)
            finally:
                _state["current"] = None
            idx = [q.name for q in info.parameters.call_parameters].index(p.name)
            val, pts, wts = mesh[idx]
            if active:
                c, s = _infer(pts)
                ok = (len(pts) == 11 and abs(c - exp_c) <= 1e-9*(abs(exp_c) + exp_s)
                      and abs(s - exp_s) <= 1e-9*exp_s and val == value)
                rec.check("model_layer_centre_width", ok,
                          {"model": name, "parameter": p.name, "type": p.type, "dim": dim, "via": "get_mesh",
                           "value": value, "width": width, "inferred": [c, s], "expected": [exp_c, exp_s],
                           "points": pts})
                rec.bucket("layer:get_mesh")
                rec.set_shape((name, p.name, dim, "get_mesh"), True)
            else:
                # inactive in this dimension: single point, value for sizes / 0 for angles
                exp = value if p.relative_pd else 0.0
                rec.check("model_layer_inactive_single", len(pts) == 1 and pts[0] == exp and wts[0] == 1.0,
                          {"model": name, "parameter": p.name, "dim": dim, "points": pts})
        # --- fewer than two points with a non-zero width: the single central value (the value for sizes, zero
        # jitter for angles) with weight one, through both layers
        for npts1 in (1, 0):
            pars1 = {p.name: value, p.name + "_pd": width, p.name + "_pd_n": npts1, p.name + "_pd_nsigma": 2.0,
                     p.name + "_pd_type": "gaussian"}
            dim1 = "2d" if p.type == "orientation" else "1d"
            _state["current"] = rec
            try:
                mesh1 = direct_model.get_mesh(info, pars1, dim=dim1)
            finally:
                _state["current"] = None
            idx1 = [q.name for q in info.parameters.call_parameters].index(p.name)
            v1, pts1, wts1 = mesh1[idx1]
            centre = value if p.relative_pd else 0.0
            ok1 = (len(pts1) == 1 and float(pts1[0]) == centre and float(wts1[0]) == 1.0 and v1 == value)
            rec.check("degenerate_single_point", ok1,
                      {"model": name, "parameter": p.name, "type": p.type, "via": "get_mesh", "npts": npts1, "width": width,
                       "value": value, "points": pts1, "weights": wts1, "expected_point": centre})
            m1 = Model()
            m1.setParam(p.name, value)
            m1.setParam(p.name + ".width", width)
            m1.setParam(p.name + ".npts", npts1)
            _state["current"] = rec
            try:
                v2, pts2, wts2 = m1._get_weights(p)
            finally:
                _state["current"] = None
            ok2 = (len(pts2) == 1 and float(pts2[0]) == centre and float(wts2[0]) == 1.0)
            if p.type == "orientation":
                # a view angle entered beyond a whole turn (400 degrees): the jitter distribution is still the single point 0
                for far in (400.0, -365.0):
                    m1.setParam(p.name, far)
                    _state["current"] = rec
                    try:
                        _v, ptsf, wtsf = m1._get_weights(p)
                        meshf = direct_model.get_mesh(info, dict(pars1, **{p.name: far}), dim="2d")[idx1]
                    finally:
                        _state["current"] = None
                    okf = (len(ptsf) == 1 and float(ptsf[0]) == 0.0 and float(wtsf[0]) == 1.0
                           and len(meshf[1]) == 1 and float(meshf[1][0]) == 0.0 and float(meshf[2][0]) == 1.0)
                    rec.check("degenerate_single_point", okf,
                              {"model": name, "parameter": p.name, "via": "SasviewModel._get_weights / get_mesh", "view_angle": far,
                               "npts": npts1, "points": [ptsf, meshf[1]], "weights": [wtsf, meshf[2]]})
                m1.setParam(p.name, value)
                rec.bucket("layer:view-angle-beyond-a-whole-turn")
            rec.check("degenerate_single_point", ok2,
                      {"model": name, "parameter": p.name, "type": p.type, "via": "SasviewModel._get_weights", "npts": npts1,
                       "width": width, "value": value, "points": pts2, "weights": wts2, "expected_point": centre})
        rec.bucket("layer:fewer-than-two-points-with-width")
        # --- SasviewModel._get_weights
        m = Model()
        m.setParam(p.name, value)
        m.setParam(p.name + ".width", width)
        m.setParam(p.name + ".npts", 11)
        m.setParam(p.name + ".nsigmas", 2.0)
        m.setParam(p.name + ".type", "gaussian")
        _state["current"] = rec
        try:
            val, pts, wts = m._get_weights(p)
        finally:
            _state["current"] = None
        c, s = _infer(pts)
        ok = (len(pts) == 11 and abs(c - exp_c) <= 1e-9*(abs(exp_c) + exp_s)
              and abs(s - exp_s) <= 1e-9*exp_s and val == value)
        rec.check("model_layer_centre_width", ok,
                  {"model": name, "parameter": p.name, "type": p.type, "via": "SasviewModel._get_weights",
                   "value": value, "width": width, "inferred": [c, s], "expected": [exp_c, exp_s],
                   "points": pts})
        rec.bucket("layer:sasview")
        rec.set_shape((name, p.name, "sasview"), True)
    # --- consecutive requests for one parameter that differ in exactly one setting: each must be get_weights of
    # *its* settings (nothing remembered from the request before)
    seqp = [p for p in info.parameters.call_parameters if p.polydisperse and p.relative_pd and np.isfinite(p.default)
            and p.default > 0 and p.limits[0] <= 0 and not np.isfinite(p.limits[1])][:2]
    helper_cost = {"Iq": 1.0}
    if seqp:
        # what forty unsmeared points of this model cost once its library is loaded
        try:
            direct_model.Iq(name, np.array([0.01, 0.1]))
            t_h = time.perf_counter()
            direct_model.Iq(name, np.linspace(0.01, 0.2, 400))
            helper_cost["Iq"] = (time.perf_counter() - t_h)/10.0
        except Exception:
            rec.count("helper_entry_raised")
    for p in seqp:
        v0 = float(p.default)
        cur = {"type": "gaussian", "n": 9, "width": 0.12, "nsig": 2.0, "value": v0}
        steps = [{}, {"nsig": 3.0}, {"n": 10}, {"width": 0.2}, {"type": "lognormal"}, {"value": v0*1.25}, {"nsig": 2.0},
                 {"type": "gaussian"}, {"nsig": 2.5}, {"width": 0.12},
                 # widths above one (the quantifier goes to PD = 2): the hard limits cut the lower tail
                 {"width": 1.5}, {"type": "uniform"}, {"width": 1.9, "type": "boltzmann"},
                 # the value alone changed several times in a row, and back
                 {"width": 0.15, "type": "gaussian", "value": v0}, {"value": v0*0.8}, {"value": v0*1.6}, {"value": v0}]
        # hard limits as declared in the model's parameter table (for an element of a vector parameter: the
        # limits of the vector), not as carried by the expanded call parameter
        decl = [kp for kp in info.parameters.kernel_parameters
                if kp.name == p.name or (kp.length > 1 and p.name.rstrip("0123456789") == kp.id)]
        lim = tuple(decl[0].limits) if decl else tuple(p.limits)
        if decl and decl[0].length > 1:
            rec.bucket("layer:vector-element")
        mm = Model()
        # the bumps wrapper's model object carries the same settings as attributes, which a script rebinds one by one
        import types as _types
        stubs_ = os.path.join(core.VERIF, "rtm", "stubs")      # bumps.parameter is a stub (bumps is not installed)
        if stubs_ not in sys.path:
            sys.path.insert(0, stubs_)
        from sasmodels import bumps_model
        bm = bumps_model.Model(_types.SimpleNamespace(info=info), **{p.name: cur["value"], p.name + "_pd": cur["width"],
                                                                       p.name + "_pd_n": cur["n"], p.name + "_pd_nsigma": cur["nsig"],
                                                                       p.name + "_pd_type": cur["type"]})
        for st_ in steps:
            cur.update(st_)
            for kk_, attr_ in (("value", p.name), ("width", p.name + "_pd"), ("n", p.name + "_pd_n"), ("nsig", p.name + "_pd_nsigma")):
                if kk_ in st_:
                    getattr(bm, attr_).value = cur[kk_]
            if "type" in st_:
                setattr(bm, p.name + "_pd_type", cur["type"])
            pars = {p.name: cur["value"], p.name + "_pd": cur["width"], p.name + "_pd_n": cur["n"],
                    p.name + "_pd_nsigma": cur["nsig"], p.name + "_pd_type": cur["type"]}
            mm.setParam(p.name, cur["value"])
            for attr, val in ((".width", cur["width"]), (".npts", cur["n"]), (".nsigmas", cur["nsig"]), (".type", cur["type"])):
                mm.setParam(p.name + attr, val)
            _state["current"] = rec
            try:
                mesh = direct_model.get_mesh(info, pars, dim="1d")
                _, pts2, wts2 = mm._get_weights(p)
                exp_v, exp_w = weights.get_weights(cur["type"], cur["n"], cur["width"], cur["nsig"], cur["value"],
                                                   lim, True)
            finally:
                _state["current"] = None
            idx = [q.name for q in info.parameters.call_parameters].index(p.name)
            _, pts, wts = mesh[idx]
            _state["current"] = rec
            try:
                _, pts3, wts3 = direct_model.get_mesh(info, bm.state(), dim="1d")[idx]
            finally:
                _state["current"] = None
            vias = [("get_mesh", pts, wts), ("SasviewModel", pts2, wts2), ("bumps Model.state()", pts3, wts3)]
            # the one-call helpers Iq / Iqxy / Gxi: the mesh their calculator builds from the keywords as given
            if ("nsig" in st_ or "n" in st_ or "type" in st_) and helper_cost["Iq"] < 0.004:
                # (only on models that answer quickly: the spin-echo transform asks for thousands of points)
                helper = ("Iq", "Iqxy", "Gxi")[(len(vias) + steps.index(st_)) % 3]
                seen_ = []
                orig_gm = direct_model.get_mesh

                def spy_gm(model_info, values, dim='1d', mono=False, _o=orig_gm, _s=seen_):
                    out = _o(model_info, values, dim=dim, mono=mono)
                    _s.append(out)
                    return out
                direct_model.get_mesh = spy_gm
                _state["current"] = rec
                try:
                    if helper == "Iq":
                        direct_model.Iq(name, np.array([0.01, 0.1]), **pars)
                    elif helper == "Iqxy":
                        direct_model.Iqxy(name, np.array([0.01, 0.05]), np.array([0.02, -0.03]), **pars)
                    else:
                        direct_model.Gxi(name, np.array([100.0, 1000.0]), **pars)
                except Exception as exc:
                    rec.count("helper_entry_raised")
                    seen_.append(None)
                    rec.observe(helper_exception=repr(exc)[:200])
                finally:
                    _state["current"] = None
                    direct_model.get_mesh = orig_gm
                if seen_ and seen_[-1] is not None:
                    _, ptsh, wtsh = seen_[-1][idx]
                    vias.append(("direct_model.%s keywords" % helper, ptsh, wtsh))
                    rec.bucket("layer:helper-" + helper)
                elif not seen_:
                    rec.inconclusive("the mesh built by direct_model.%s for %s was not observed" % (helper, name))
            for via, a, b in vias:
                ok = np.array_equal(np.asarray(a), exp_v) and np.array_equal(np.asarray(b), exp_w)
                rec.check("mesh_is_get_weights_for_this_parameter", ok,
                          None if ok else {"model": name, "parameter": p.name, "via": via + " after a request differing in " +
                                           (", ".join(st_) or "nothing"), "settings": dict(cur), "declared_limits": lim,
                                           "points": np.asarray(a)[:6], "expected_points": exp_v[:6],
                                           "npoints": [len(a), len(exp_v)]})
        rec.bucket("layer:one-setting-changed-sequence")
    # --- one disperser object handed to set_dispersion for several parameters / instances, then one of them edited
    pdp = [p for p in info.parameters.call_parameters if p.polydisperse and p.relative_pd
           and np.isfinite(p.default) and p.default > 0 and p.limits[0] <= 0 and not np.isfinite(p.limits[1])]
    if len(pdp) >= 1:
        d = weights.MODELS["gaussian"](11, 0.1, 2.0) if hasattr(weights, "MODELS") else weights.GaussianDispersion(11, 0.1, 2.0)
        m1, m2 = Model(), Model()
        pa = pdp[0]
        pb = pdp[1] if len(pdp) > 1 else pdp[0]
        m1.set_dispersion(pa.name, d)
        if pb is not pa:
            m1.set_dispersion(pb.name, d)
        m2.set_dispersion(pa.name, d)
        # edit the other holders of that disperser's settings
        if pb is not pa:
            m1.setParam(pb.name + ".width", 0.3)
            m1.setParam(pb.name + ".npts", 5)
            m1.setParam(pb.name + ".nsigmas", 1.5)
        m2.setParam(pa.name + ".width", 0.27)
        m2.setParam(pa.name + ".npts", 7)
        va = float(pa.default)
        m1.setParam(pa.name, va)
        _state["current"] = rec
        try:
            val, pts, wts = m1._get_weights(pa)
            exp_v, exp_w = weights.get_weights("gaussian", 11, 0.1, 2.0, va, pa.limits, True)
        finally:
            _state["current"] = None
        rec.check("mesh_is_get_weights_for_this_parameter",
                  np.array_equal(np.asarray(pts), exp_v) and np.array_equal(np.asarray(wts), exp_w),
                  {"model": name, "parameter": pa.name, "via": "SasviewModel.set_dispersion with one disperser object shared "
                   "by %s and a second instance, the others edited afterwards" % pb.name,
                   "points": np.asarray(pts)[:8], "expected_points": exp_v[:8], "npoints": [len(pts), len(exp_v)]})
        rec.bucket("layer:set_dispersion-shared-object")
        # a disperser of zero width handed to a parameter that had a width before: the single central value
        m3 = Model()
        m3.setParam(pa.name, va)
        m3.setParam(pa.name + ".width", 0.25)
        m3.setParam(pa.name + ".npts", 15)
        m3.set_dispersion(pa.name, weights.GaussianDispersion(npts=15, width=0.0, nsigmas=3.0))
        _state["current"] = rec
        try:
            val3, pts3, wts3 = m3._get_weights(pa)
        finally:
            _state["current"] = None
        ok3 = len(pts3) == 1 and float(pts3[0]) == va and float(wts3[0]) == 1.0
        rec.check("degenerate_single_point", ok3,
                  {"model": name, "parameter": pa.name, "via": "SasviewModel.set_dispersion(zero-width disperser) after a "
                   "non-zero width", "points": np.asarray(pts3)[:8], "weights": np.asarray(wts3)[:8], "value": va})
        rec.bucket("layer:set_dispersion-zero-width-after-width")
    check_defaults(rec, "layer evaluations of " + name)
    rec.observe(model=name, dispersible=npd)
    if npd == 0:
        rec.set_shape((name, "no dispersible parameter"), False)


def run_shared(case, rec):
    """The mesh handed on by get_mesh / SasviewModel must be exactly what get_weights returns for *this*
    parameter's limits and width convention, whatever was requested before from other models."""
    from sasmodels import core as sascore, direct_model, sasview_model, weights
    rng = core.rng_for(case["seed"], PROP, "shared", case["k"])
    byname = {}
    for m in sorted(sascore.list_models()):
        info = sascore.load_model_info(m)
        for p in info.parameters.call_parameters:
            if p.polydisperse:
                byname.setdefault(p.name, []).append((m, info, p))
    names = sorted(n for n, v in byname.items() if len({tuple(x[2].limits) for x in v}) > 1)
    rec.observe(shared_names_with_different_limits=names[:12])
    for name in names:
        entries = byname[name]
        dist = TYPES[int(rng.integers(len(TYPES)))]
        if entries[0][2].type == "orientation" and dist in ("lognormal", "schulz"):
            dist = "gaussian"
        npts = int(rng.integers(5, 40))
        nsig = float(rng.uniform(2.0, 4.0))
        los = [e[2].limits[0] for e in entries if np.isfinite(e[2].limits[0])]
        his = [e[2].limits[1] for e in entries if np.isfinite(e[2].limits[1])]
        # a value close to the tightest lower limit, and a wide distribution, so that the limits matter
        value = (max(los) if los else 1.0) + float(rng.uniform(0.05, 2.0))
        if his:
            value = min(value, min(his)*0.95)
        if value == 0:
            value = 0.5
        width = float(rng.uniform(0.2, 0.6)) if entries[0][2].relative_pd else float(rng.uniform(5, 40))
        order = rng.permutation(len(entries))
        for k in order:
            m, info, p = entries[k]
            lo, hi = p.limits
            if not (lo <= value <= hi):
                continue
            pars = {p.name: value, p.name + "_pd": width, p.name + "_pd_n": npts,
                    p.name + "_pd_nsigma": nsig, p.name + "_pd_type": dist}
            _state["current"] = rec
            try:
                mesh = direct_model.get_mesh(info, pars, dim="2d")
                exp_v, exp_w = weights.get_weights(dist, npts, width, nsig, value, p.limits, p.relative_pd)
            finally:
                _state["current"] = None
            idx = [q.name for q in info.parameters.call_parameters].index(p.name)
            val, pts, wts = mesh[idx]
            ok = (np.array_equal(np.asarray(pts), exp_v) and np.array_equal(np.asarray(wts), exp_w))
            rec.check("mesh_is_get_weights_for_this_parameter", ok,
                      {"model": m, "parameter": p.name, "limits": p.limits, "relative": p.relative_pd,
                       "settings": pars, "points": np.asarray(pts)[:8], "expected_points": exp_v[:8],
                       "npoints": [len(pts), len(exp_v)]})
            inside = bool(np.all(np.asarray(pts) >= lo) and np.all(np.asarray(pts) <= hi))
            rec.check("mesh_inside_parameter_limits", inside,
                      {"model": m, "parameter": p.name, "limits": p.limits, "points": np.asarray(pts)[:8]})
            rec.set_shape((m, p.name, dist, npts, "shared"), True)
            rec.bucket("layer:shared-name-sequence")
            # same request through the SasView wrapper
            Model = sasview_model._make_standard_model(m)
            mm = Model()
            mm.setParam(p.name, value)
            for attr, v in ((".width", width), (".npts", npts), (".nsigmas", nsig), (".type", dist)):
                mm.setParam(p.name + attr, v)
            _state["current"] = rec
            try:
                val2, pts2, wts2 = mm._get_weights(p)
            finally:
                _state["current"] = None
            rec.check("mesh_is_get_weights_for_this_parameter",
                      np.array_equal(np.asarray(pts2), exp_v) and np.array_equal(np.asarray(wts2), exp_w),
                      {"model": m, "parameter": p.name, "via": "SasviewModel", "points": np.asarray(pts2)[:8],
                       "expected_points": exp_v[:8]})


COMPOSITES = ["cylinder@hardsphere", "ellipsoid@squarewell", "cylinder@hardsphere+sphere", "sphere+cylinder",
              "core_shell_cylinder@stickyhardsphere", "parallelepiped@hardsphere"]


def run_composite(case, rec):
    """The mesh a composite kernel (product, sum, sum holding a product) is handed by the entry points call_kernel /
    call_Fq / DirectModel, on 1-D and on 2-D q: every dispersible parameter set up with a width and two or more
    points has the documented centre and width there, angles only where the data are two-dimensional."""
    from sasmodels import core as sascore, direct_model, details, data as sdata
    expr = case["expr"]
    rng = core.rng_for(case["seed"], PROP, "composite", case["k"])
    info = sascore.load_model_info(expr)
    model = sascore.build_model(info, dtype="double", platform="dll")
    names = [p.name for p in info.parameters.call_parameters]
    cand = [p for p in info.parameters.call_parameters if p.polydisperse and not getattr(p, "is_control", False)]
    sizes = [p for p in cand if p.type == "volume"]
    angles = [p for p in cand if p.type == "orientation"]
    if not sizes or not angles:
        rec.count("composite_without_size_or_angle")
        return
    seen = []
    real = details.make_kernel_args

    def spy(kernel, mesh):
        if kernel.info is info:
            seen.append([(v, np.array(x, float), np.array(w, float)) for v, x, w in mesh])
        return real(kernel, mesh)

    for dim in ("1d", "2d"):
        ps = sizes[int(rng.integers(len(sizes)))]
        pa = angles[int(rng.integers(len(angles)))]
        n_s, n_a = int(rng.integers(3, 9)), int(rng.integers(3, 9))
        rel = float(10**rng.uniform(-2, -0.8))
        wa = float(rng.uniform(2, 25))
        va = float(rng.uniform(10, 80))
        vs = float(ps.default*rng.uniform(0.8, 1.2)) if ps.default > 0 else 20.0
        pars = {ps.name: vs, ps.name + "_pd": rel, ps.name + "_pd_n": n_s, ps.name + "_pd_nsigma": 2.0,
                pa.name: va, pa.name + "_pd": wa, pa.name + "_pd_n": n_a,
                pa.name + "_pd_type": ["gaussian", "rectangle", "uniform"][case["k"] % 3]}
        pars[pa.name + "_pd_nsigma"] = 1.5 if pars[pa.name + "_pd_type"] == "rectangle" else 2.0
        q = np.linspace(0.01, 0.2, 5)
        entry = ["call_kernel", "call_Fq", "DirectModel"][(case["k"] + (dim == "2d")) % 3]
        if entry == "call_Fq":
            entry = "call_kernel"          # composite kernels do not offer the amplitude entry
        seen.clear()
        direct_model.make_kernel_args = spy
        try:
            if entry == "DirectModel":
                d = sdata.empty_data1D(q) if dim == "1d" else sdata.empty_data2D(np.linspace(-0.1, 0.1, 4))
                calc = direct_model.DirectModel(d, model)
                calc(**pars)
            else:
                kern = model.make_kernel([q] if dim == "1d" else [q, 0.5*q])
                getattr(direct_model, entry)(kern, pars)
                kern.release()
        finally:
            direct_model.make_kernel_args = real
        if not seen:
            # (the observation point of the harness was not passed: nothing can be said about the mesh)
            rec.inconclusive("the mesh handed to the composite kernel of %s was not observed through %s" % (expr, entry))
            continue
        rec.seen("composite_mesh_observed")
        mesh = seen[-1]
        for p_, val, n_, exp_c, exp_s, active in ((ps, vs, n_s, vs, rel*vs, True), (pa, va, n_a, 0.0, wa, dim == "2d")):
            v, pts, wts = mesh[names.index(p_.name)]
            if active:
                typ = pars.get(p_.name + "_pd_type", "gaussian")
                if typ == "gaussian":
                    lo_, hi_ = exp_c - 2.0*exp_s, exp_c + 2.0*exp_s
                elif typ == "rectangle":
                    lo_, hi_ = exp_c - 1.5*exp_s, exp_c + 1.5*exp_s       # 1.5 sigma requested, inside sqrt(3) sigma
                else:
                    lo_, hi_ = exp_c - exp_s, exp_c + exp_s
                ok = (len(pts) == n_ and abs(pts[0] - lo_) <= 1e-9*(abs(exp_c) + exp_s)
                      and abs(pts[-1] - hi_) <= 1e-9*(abs(exp_c) + exp_s) and abs(float(np.sum(wts)) - 1.0) <= 1e-12
                      and float(v) == float(val))
                rec.check("model_layer_centre_width", ok,
                          {"model": expr, "parameter": p_.name, "type": p_.type, "dim": dim, "via": entry,
                           "distribution": typ, "value": val, "width": exp_s, "npts": n_, "points": pts, "weights": wts,
                           "expected_range": [lo_, hi_]})
                rec.set_shape((expr, p_.name, dim, entry), True)
            # (an angle on 1-D data has no effect on the result; whether the entry point still hands its mesh to a
            # composite kernel is not part of the property)
        rec.bucket("layer:composite-kernel-" + dim, "entry:" + entry)
    if case["k"] < 3:
        rec.observe(model=expr, size=ps.name, angle=pa.name)


def run_suite(case, rec):
    """The repository's own tests with the contract switched on (thorough)."""
    import subprocess, os, sys, json, tempfile
    script = os.path.join(core.VERIF, "rtm", "props", "_c02_suite.py")
    out = os.path.join(os.environ.get("RTM_SCRATCH", tempfile.gettempdir()), "c02_suite.json")
    res = subprocess.run([core.PY, script, out], cwd=core.REPO, capture_output=True, text=True,
                         timeout=3000, env=dict(os.environ, PYTHONPATH=core.REPO + os.pathsep + core.VERIF))
    if not os.path.exists(out):
        raise RuntimeError("suite under contract produced no report: " + res.stdout[-2000:] + res.stderr[-2000:])
    rep = json.load(open(out))
    for m, (n, f) in rep["monitors"].items():
        mm = rec.monitors.setdefault(m, [0, 0])
        mm[0] += n
        mm[1] += f
    rec.violations.extend(rep["violations"][:20])
    rec.count("suite_contract_evaluations", rep["contract_evals"])
    rec.observe(suite_exit=rep["exit"], contract_evaluations=rep["contract_evals"])
    rec.set_shape(("suite",), True)


def run_case(case, rec):
    install_contract()
    if case["kind"] == "direct":
        run_direct(case, rec)
    elif case["kind"] == "layer":
        run_layer(case, rec)
    elif case["kind"] == "shared":
        run_shared(case, rec)
    elif case["kind"] == "composite":
        run_composite(case, rec)
    else:
        run_suite(case, rec)


def classify(case, v):
    d = v.get("detail") or {}
    if (d.get("all_retained_densities_underflow")
            and v.get("monitor") in ("weights_finite_nonneg", "weights_sum_to_one", "proportional_to_density")):
        return "C02/all-retained-densities-underflow-gives-nan"
    return None

LEVEL_TEXT = ("Post-condition contracts on the real weights.get_weights judge every call of a generated workload that "
              "covers the quantifier (2e4 draws quick, 1e6 thorough) against scipy.stats densities; centre/width "
              "inference through get_mesh and SasviewModel on every dispersible parameter of all builtin models. "
              "Exploration: holds on the executions observed, not a proof over all reals.")
LEVEL_NOTE = ("Trusts scipy.stats as the documented densities and numpy linspace for the documented mesh; lognormal/"
              "schulz with absolute width (centre 0) are outside the generator.")
TECHNIQUE = "icontract post-conditions on the real function + reference-density monitor over generated inputs"
