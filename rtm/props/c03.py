"""
C03 - resolution smearing is a normalised non-negative average with full support.

Class invariants are attached (icontract.invariant) to the real Pinhole1D and
Slit1D classes so that they are evaluated on every construction of the run;
2-D and DirectModel are probed through apply().
"""
from __future__ import annotations

import math

import numpy as np

from rtm import core

PROP = "C03"
LEVEL = "exploration"
RULE = ("Generated constructions: q grids (linear, log, irregular; 1..500 points; first point 1e-5..1e-2) x per-point "
        "pinhole sigma from 0 to 3q x slit (length,width) in {(L,0),(0,W),(L,W)} scalar or per-point x default or "
        "user-supplied q_calc (superset of q) x 2-D (dq_par,dq_perp) including zeros x all four accuracy levels.  "
        "Distinct: hash of (geometry, grid kind, n, width class, q_calc kind).  Non-trivial: at least one data point "
        "has a non-zero width, or the case is a zero-width/one-point case the statement names.")
ASSUMPTIONS = [
    "support is judged with a tolerance of one local grid step at each end of a data point's window",
    "for 2-D data 'zero width' means no resolution columns (exact); explicit zeros are replaced by 1e-10 by the "
    "code and are required to agree to 1e-8 relative",
    "I(-q)=I(q): 2-D sample points may lie around -q (the code uses atan(qy/qx))",
]
REQUIRED_MONITORS = ["weights_nonnegative", "weights_sum_to_one", "flat_unchanged", "linear_in_scale_background",
                     "q_calc_strictly_positive", "support_spans_window", "zero_width_exact", "constructs", "invariant_evaluations"]
REQUIRED_BUCKETS = {"quick": ["geom:pinhole", "geom:slit(L,0)", "geom:slit(0,W)", "geom:slit(L,W)", "geom:2d",
                              "grid:linear", "grid:log", "grid:irregular", "qcalc:default", "qcalc:user", "n:1", "n:2",
                              "sigma>q", "zero_width", "grid_extension_hits_zero", "perpoint", "directmodel", "directmodel:mixed-zero", "directmodel:widths-changed-on-same-data-object", "q-order:not-ascending", "acc:low", "acc:med", "acc:high",
                              "acc:xhigh", "2d:on-axis-pixels", "q-grid:value-listed-twice", "q-grid:end-point-listed-twice", "pinhole:nsigma-given", "2d:stale-q-column", "directmodel:2d-centre-pixel", "slit:size-equals-smallest-q"]}
REQUIRED_BUCKETS["thorough"] = REQUIRED_BUCKETS["quick"]

_state = {"installed": False, "current": None, "evals": 0}


class InvariantBroken(Exception):
    pass


def slit_window(q, L, W, qmin):
    lo = abs(q - W) if q >= W else 0.0
    hi = math.sqrt((q + W)**2 + L**2)
    return max(lo, 0.02*qmin), hi


def judge_1d(rec, res, geom, ctx):
    """Invariants of one constructed Pinhole1D / Slit1D."""
    W = np.asarray(res.weight_matrix, float)
    q = np.asarray(res.q, float)
    qc = np.asarray(res.q_calc, float)
    key = ctx.get("key")

    def chk(name, ok, **extra):
        return rec.check(name, ok, None if ok else dict({k: v for k, v in ctx.items() if k != "key"}, **extra), key=key)
    chk("weights_nonnegative", bool(np.all(W >= -1e-15)), min_weight=float(W.min()) if W.size else None)
    sums = W.sum(axis=0)
    tol = 1e-12 if geom == "pinhole" else 1e-9
    chk("weights_sum_to_one", bool(np.all(np.abs(sums - 1.0) <= tol)),
        worst=[float(sums.min()), float(sums.max())], at_q=float(q[int(np.argmax(np.abs(sums - 1)))]))
    chk("q_calc_strictly_positive", bool(np.all(qc > 0)), min_q_calc=float(qc.min()) if qc.size else None)
    flat = res.apply(np.full(len(qc), 2.5))
    chk("flat_unchanged", bool(np.all(np.abs(flat - 2.5) <= 2.5*tol*10)), worst=float(np.max(np.abs(flat - 2.5))))
    f = 1.0/(1.0 + (qc/ (np.median(q) + 1e-12))**2)
    a, b = 3.7, 0.41
    lin = res.apply(a*f + b) - (a*res.apply(f) + b)
    chk("linear_in_scale_background", bool(np.all(np.abs(lin) <= 1e-9*(a + b))), worst=float(np.max(np.abs(lin))))
    judge_support(q, qc, geom, ctx, chk)


def judge_support(q, qc, geom, ctx, chk):
    """support: the calculation grid reaches each point's window within one local step"""
    qmin = float(np.min(q))
    widths = ctx["_widths"]
    bad = None
    srt = np.sort(qc)
    for i, qi in enumerate(q):
        if geom == "pinhole":
            s = widths[0][i]
            if s <= 0:
                continue
            nlo_, nhi_ = ctx.get("_nsigma", (2.5, 3.0))
            lo, hi = max(qi - nlo_*s, 0.02*qmin), qi + nhi_*s
            if qi - nlo_*s < 0:
                lo = 0.02*qmin   # reflected part of the window lies at smaller |q|
        else:
            L, Wd = widths[0][i], widths[1][i]
            if L == 0 and Wd == 0:
                continue
            lo, hi = slit_window(qi, L, Wd, qmin)
        inside = srt[(srt >= lo) & (srt <= hi)]
        step_lo = (float(np.max(np.diff(srt[srt >= lo][:5]))) if np.sum(srt >= lo) >= 2 else 0.0)
        step_hi = (float(np.max(np.diff(srt[srt <= hi][-5:]))) if np.sum(srt <= hi) >= 2 else 0.0)
        width = hi - lo
        ok = (srt[0] <= lo + max(step_lo, 1e-12) + 1e-3*width) and (srt[-1] >= hi - max(step_hi, 1e-12) - 1e-3*width) \
            and len(inside) >= 1
        if not ok:
            bad = {"i": int(i), "q": float(qi), "window": [lo, hi], "q_calc_range": [float(srt[0]), float(srt[-1])],
                   "points_in_window": int(len(inside))}
            break
    chk("support_spans_window", bad is None, uncovered=bad)


def install_invariants():
    if _state["installed"]:
        return
    import icontract
    from sasmodels import resolution

    def pinhole_ok(self):
        _state["evals"] += 1
        rec = _state["current"]
        if rec is not None and getattr(self, "weight_matrix", None) is not None and _state.get("ctx"):
            rec.seen("invariant_evaluations")
            try:
                judge_1d(rec, self, "pinhole", _state["ctx"])
            except Exception as exc:       # harness fault, never the code's
                rec.inconclusive("judge failed: %r" % (exc,))
        return True

    def slit_ok(self):
        _state["evals"] += 1
        rec = _state["current"]
        if rec is not None and getattr(self, "weight_matrix", None) is not None and _state.get("ctx"):
            rec.seen("invariant_evaluations")
            try:
                judge_1d(rec, self, "slit", _state["ctx"])
            except Exception as exc:
                rec.inconclusive("judge failed: %r" % (exc,))
        return True

    resolution.Pinhole1D = icontract.invariant(pinhole_ok, error=InvariantBroken)(resolution.Pinhole1D)
    resolution.Slit1D = icontract.invariant(slit_ok, error=InvariantBroken)(resolution.Slit1D)
    from sasmodels import direct_model
    direct_model.resolution.Pinhole1D = resolution.Pinhole1D
    direct_model.resolution.Slit1D = resolution.Slit1D
    _state["installed"] = True


def worker_init(tier, seed):
    install_invariants()


# ---------------------------------------------------------------------------

def make_grid(rng, kind, n):
    q0 = float(10**rng.uniform(-5, -2))
    if n == 1:
        return np.array([q0*10])
    if kind == "linear":
        return np.linspace(q0, q0 + float(10**rng.uniform(-2, -0.3)), n)
    if kind == "log":
        return np.logspace(math.log10(q0), math.log10(q0) + float(rng.uniform(0.5, 3)), n)
    x = np.sort(rng.uniform(0, 1, n))
    x = np.unique(x)
    return q0 + (x - x[0] + 1e-6)*float(10**rng.uniform(-2, -0.3))


def gen_cases(tier, seed):
    n = 120 if tier == "quick" else 1000
    cases = [{"id": "b/%04d" % k, "batch": k, "seed": seed, "n": 20, "group": "b%d" % k} for k in range(n)]
    cases.append({"id": "directmodel", "kind": "dm", "seed": seed, "group": "dm", "cost": 10})
    return cases


def _merge(q, extra, zero):
    """User grid = data points plus extra points.  When the widths are zero the extra points keep 2e-7 away
    from every data point: a zero width is represented by a 1e-8 wide Gaussian in the code, which the
    harness's own extra points must not land in (generator hygiene, see DESIGN).  With non-zero widths every
    extra point is kept (an absolute exclusion distance starves the windows of grids that start near 1e-5)."""
    q = np.asarray(q, float)
    if zero:
        d = np.min(np.abs(extra[:, None] - q[None, :]), axis=1)
        extra = extra[d >= 2e-7]
    return np.unique(np.concatenate([q, extra]))


GEOMS = ["pinhole", "slit(L,0)", "slit(0,W)", "slit(L,W)", "2d"]


def run_batch(case, rec):
    from sasmodels import resolution, resolution2d, data as sdata
    rng = core.rng_for(case["seed"], PROP, case["batch"])
    for k in range(case["n"]):
        geom = GEOMS[(case["batch"] + k) % len(GEOMS)]
        kind = ["linear", "log", "irregular"][int(rng.integers(3))]
        forced_n = {0: 1, 1: 2}.get(k)
        n = forced_n or int(rng.choice([3, 5, 12, 40, 120, 500], p=[0.2, 0.2, 0.25, 0.2, 0.1, 0.05]))
        q = make_grid(rng, kind, n)
        n = len(q)
        if k % 5 == 4 and n > 2:
            # the same points listed in another order (descending scans, merged files)
            q = q[::-1].copy() if (case["batch"] + k) % 2 else q[rng.permutation(n)]
            rec.bucket("q-order:not-ascending")
        if k % 11 == 6 and n > 2 and geom != "2d":
            # a measured grid that lists a q value twice (merged detector settings that overlap in one point)
            j_ = int(rng.integers(n)) if rng.random() < 0.4 else int(rng.choice([0, n - 1]))   # often an end point
            q = np.insert(q, j_, q[j_])
            n = len(q)
            rec.bucket("q-grid:value-listed-twice")
        end_twice = (geom == "pinhole" and k == 6 + (case["batch"] % 2)*5) or (geom == "pinhole" and k in (6, 11) and n <= 2)
        if geom == "pinhole" and k in (6, 11):
            # constructive: a log grid over one and a half decades whose lowest (or highest) value is listed twice, widths
            # larger than q, automatic calculation grid
            kind = "log"
            q = np.logspace(-4.2, -2.7, 12)
            q = np.insert(q, 0, q[0]) if k == 6 else np.append(q, q[-1])
            n = len(q)
            end_twice = True
            rec.bucket("q-grid:end-point-listed-twice")
        hits_zero = (geom == "pinhole" and k == 2)
        if hits_zero:
            # constructive: the symmetric linear extension of this grid lands exactly on q = 0
            kind, q, n = "linear", np.linspace(0.001, 0.01, 10), 10
            rec.bucket("grid_extension_hits_zero")
        rec.bucket("geom:" + geom, "grid:" + kind, "n:%d" % n if n <= 2 else "n:>2")
        zero = (k % 7 == 3) or (k == 0 and case["batch"] % 2 == 0)
        perpoint = bool(rng.random() < 0.5)
        user_qcalc = bool(rng.random() < 0.35) and geom != "2d" and n >= 2
        ctx = {"geometry": geom, "grid": kind, "n": n, "q_first_last": [float(q[0]), float(q[-1])],
               "user_q_calc": user_qcalc}
        shape = [geom, kind, n if n < 6 else "many", zero, perpoint, user_qcalc]
        key = None
        try:
            if geom == "pinhole":
                rel = float(10**rng.uniform(-2.5, 0.5))
                sig = q*rel*(rng.uniform(0.5, 1.5, n) if perpoint else 1.0)
                if zero:
                    sig = np.zeros(n)
                if hits_zero:
                    sig, perpoint, user_qcalc, zero = np.full(n, 0.002), False, False, False
                    ctx["user_q_calc"] = False
                if end_twice and k in (6, 11):
                    sig, perpoint, user_qcalc, zero = q*float(rng.uniform(1.5, 2.5)), False, False, False
                    ctx["user_q_calc"] = False
                if np.any(sig > q):
                    rec.bucket("sigma>q")
                # the truncation of the Gaussian is the caller's choice: default, a number, or a (low, high) pair
                nsig_arg = [None, None, 4.0, (4.0, 5.0), 2.0, (1.5, 3.5)][int(rng.integers(6))] if not hits_zero else None
                nsig_pair = (2.5, 3.0) if nsig_arg is None else (nsig_arg, nsig_arg) if np.isscalar(nsig_arg) else nsig_arg
                if nsig_arg is not None:
                    rec.bucket("pinhole:nsigma-given")
                qc = None
                if user_qcalc:
                    lo, hi = max(float(np.min(q - nsig_pair[0]*sig)), float(np.min(q))*0.02), float(np.max(q + nsig_pair[1]*sig))
                    extra = np.linspace(lo, hi, int(rng.integers(50, 400)))
                    qc = _merge(q, extra, zero)
                ctx.update(sigma_rel=rel if not zero else 0.0, _widths=(sig,), _nsigma=nsig_pair, nsigma=nsig_arg)
                _run_1d(rec, (lambda: resolution.Pinhole1D(q, sig, q_calc=qc)) if nsig_arg is None else
                        (lambda: resolution.Pinhole1D(q, sig, q_calc=qc, nsigma=nsig_arg)), q, zero, ctx, geom, n)
            elif geom.startswith("slit"):
                span = float(np.max(q) - np.min(q)) if n > 1 else float(q[0])
                L = float(10**rng.uniform(-3, 0))*max(span, float(np.min(q))) if "L" in geom else 0.0
                W = float(10**rng.uniform(-3, 0))*max(span, float(np.min(q))) if "W" in geom else 0.0
                if zero:
                    L = W = 0.0
                if k == 7 and L and not zero:
                    # a slit length (or width) exactly equal to the smallest q of the data: the window starts at q - L = 0
                    if geom == "slit(0,W)":
                        W = float(np.min(q))
                    else:
                        L = float(np.min(q))
                    perpoint = False
                    rec.bucket("slit:size-equals-smallest-q")
                Lv = np.full(n, L)*(rng.uniform(0.7, 1.3, n) if perpoint and L else 1.0)
                Wv = np.full(n, W)*(rng.uniform(0.7, 1.3, n) if perpoint and W else 1.0)
                qc = None
                if user_qcalc:
                    lo = max(float(np.min(np.abs(q - Wv))), float(np.min(q))*0.02) if W else float(np.min(q))
                    if W and np.any(q < Wv):
                        lo = float(np.min(q))*0.02
                    hi = float(np.max(np.sqrt((q + Wv)**2 + Lv**2)))
                    extra = np.linspace(lo, hi*1.001, int(rng.integers(100, 600)))
                    qc = _merge(q, extra, zero)
                ctx.update(length=L, width=W, _widths=(Lv, Wv))
                if geom == "slit(0,W)" and not zero:
                    key = None
                ctx["key"] = key
                scalar = (not perpoint)
                _run_1d(rec, lambda: resolution.Slit1D(q, q_length=(L if scalar else Lv) if L or not scalar else None,
                                                       q_width=(W if scalar else Wv) if W or not scalar else None,
                                                       q_calc=qc), q, zero, ctx, geom, n)
            else:
                _run_2d(rec, rng, q, zero, ctx)
        finally:
            _state["ctx"] = None
        if zero:
            rec.bucket("zero_width")
        if perpoint:
            rec.bucket("perpoint")
        rec.bucket("qcalc:user" if user_qcalc else "qcalc:default")
        rec.set_shape(shape, nontrivial=True)


def _run_1d(rec, construct, q, zero, ctx, geom, n):
    _state["current"], _state["ctx"] = rec, ctx
    before = _state["evals"]
    try:
        res = construct()
    except Exception as exc:
        single = (n == 1)
        rec.check("constructs", False, dict({k: v for k, v in ctx.items() if not k.startswith("_") and k != "key"},
                                            exception=repr(exc)),
                  key="C03/single-point-grid-raises" if single else ctx.get("key"))
        return
    finally:
        _state["current"] = None
    rec.check("constructs", True)
    # a copied / pickled resolution object is the same smearing operator
    import copy as _copy, pickle as _pickle
    ftest = np.sin(23.0*np.asarray(res.q_calc)) + 2.0 + np.asarray(res.q_calc)
    base_out = np.asarray(res.apply(ftest), float)
    _state["current"] = None
    for how, clone in (("deepcopy", lambda: _copy.deepcopy(res)), ("pickle", lambda: _pickle.loads(_pickle.dumps(res)))):
        try:
            twin = clone()
            same = bool(np.array_equal(np.asarray(twin.q_calc), np.asarray(res.q_calc))
                        and np.array_equal(np.asarray(twin.apply(ftest), float), base_out, equal_nan=True))
            rec.check("copy_is_same_operator", same,
                      dict({k: v for k, v in ctx.items() if not k.startswith("_") and k != "key"}, how=how,
                           nq_calc=[len(np.asarray(res.q_calc)), len(np.asarray(twin.q_calc))]))
        except Exception as exc:
            rec.check("copy_is_same_operator", False,
                      dict({k: v for k, v in ctx.items() if not k.startswith("_") and k != "key"}, how=how, exception=repr(exc)))
    if _state["evals"] == before:
        rec.inconclusive("class invariant was not evaluated on construction")
    if zero:
        f = np.sin(37.0*res.q_calc) + 2.0 + res.q_calc
        # unsmeared input at the data points
        direct = np.sin(37.0*np.asarray(q)) + 2.0 + np.asarray(q)
        out = res.apply(f)
        qcs = np.sort(np.asarray(res.q_calc, float))
        gap = float(np.min(np.diff(qcs))) if len(qcs) > 1 else float("inf")
        # zero width is a 1e-8 wide Gaussian in the code: calculation points closer than 8.6 of those widths
        # (weight > 1e-16) leak into each other; that mechanism is a listed finding, anything else is not
        rec.check("zero_width_exact", bool(np.array_equal(out, direct)),
                  dict({k: v for k, v in ctx.items() if not k.startswith("_") and k != "key"},
                       max_abs_diff=float(np.max(np.abs(out - direct))), min_q_calc_gap=gap),
                  key="C03/zero-width-is-1e-8-gaussian-leaks-between-points-closer-than-9e-8"
                  if gap < 9e-8 and float(np.max(np.abs(out - direct))) <= 40.0*9e-8 else None)


class _D2:
    pass


def _run_2d(rec, rng, q, zero, ctx):
    from sasmodels import resolution2d
    n = len(q)
    ang = rng.uniform(0, 2*np.pi, n)
    d = _D2()
    d.qx_data, d.qy_data = q*np.cos(ang), q*np.sin(ang)
    if int(rng.integers(3)) == 0:
        # pixels exactly on the detector axes (the middle row/column of an odd-sized grid)
        on = rng.random(n) < 0.5
        on[int(rng.integers(n))] = True
        side = rng.integers(0, 4, n)
        sgn = np.where(side % 2 == 0, 1.0, -1.0)
        d.qx_data = np.where(on, np.where(side < 2, 0.0, sgn*q), d.qx_data)
        d.qy_data = np.where(on, np.where(side < 2, sgn*q, 0.0), d.qy_data)
        rec.bucket("2d:on-axis-pixels")
        ctx["on_axis_pixels"] = int(on.sum())
    d.q_data = q.copy()
    if int(rng.integers(2)):
        # the object's redundant |q| column left over from before its coordinates were rewritten (unit conversion, beam
        # centre correction after loading): the pixels are where qx_data, qy_data say they are
        d.q_data = q*float(rng.choice([10.0, 0.1, 1.37]))
        rec.bucket("2d:stale-q-column")
    rel_r, rel_t = float(10**rng.uniform(-2.5, -0.3)), float(10**rng.uniform(-2.5, -0.3))
    d.dqx_data = q*rel_r
    d.dqy_data = q*rel_t
    variant = int(rng.integers(4))
    if zero:
        if variant % 2:
            d.dqx_data = d.dqy_data = None
        else:
            d.dqx_data, d.dqy_data = np.zeros(n), np.zeros(n)
    elif variant == 3:
        d.dqy_data = np.zeros(n)     # one of the two widths zero
    elif variant == 2:
        d.dqx_data = np.zeros(n)     # the other one zero
    elif variant == 1 and n > 1:
        # per-pixel mixture of (S,S), (0,S), (S,0)
        which = rng.integers(0, 3, n)
        d.dqx_data = np.where(which == 1, 0.0, d.dqx_data)
        d.dqy_data = np.where(which == 2, 0.0, d.dqy_data)
    sr0 = None if d.dqx_data is None else np.array(d.dqx_data, float)   # the code edits its inputs in place
    st0 = None if d.dqy_data is None else np.array(d.dqy_data, float)
    acc = ["low", "med", "high", "xhigh"][int(rng.integers(4))]
    rec.bucket("acc:" + acc)
    ctx.update(accuracy=acc, dq_rel=[rel_r, rel_t], zero=zero)
    try:
        res = resolution2d.Pinhole2D(data=d, index=None, nsigma=3.0, accuracy=acc)
    except Exception as exc:
        rec.check("constructs", False, dict(ctx, exception=repr(exc)))
        return
    rec.check("constructs", True)
    qxc, qyc = [np.asarray(a, float) for a in res.q_calc]
    qabs = np.hypot(qxc, qyc)
    rec.check("q_calc_strictly_positive", bool(np.all(qabs > 0)), dict(ctx, min_abs_q=float(qabs.min())))
    if res.q_calc_weights is not None:
        rec.check("weights_nonnegative", bool(np.all(res.q_calc_weights >= 0)), ctx)
    flat = res.apply(np.full(len(qxc), 2.5))
    rec.check("flat_unchanged", bool(np.all(np.abs(flat - 2.5) <= 1e-12)), dict(ctx, worst=float(np.max(np.abs(flat - 2.5)))))
    rec.check("weights_sum_to_one", bool(np.all(np.abs(flat/2.5 - 1.0) <= 1e-12)), ctx)
    f = 1.0/(1.0 + (qabs/np.median(q))**2)
    a, b = 3.7, 0.41
    lin = res.apply(a*f + b) - (a*res.apply(f) + b)
    rec.check("linear_in_scale_background", bool(np.all(np.abs(lin) <= 1e-9*(a + b))), dict(ctx, worst=float(np.max(np.abs(lin)))))
    if not zero and res.q_calc_weights is not None and sr0 is not None:
        # support: the sampled radii reach 3 sigma within one ring step, in the frame aligned with q
        nb = res.nr*res.nphi
        qx = qxc.reshape(nb, n)
        qy = qyc.reshape(nb, n)
        ok = True
        for i in range(n):
            # the window of a pixel is centred on the pixel or on its mirror image through the origin (the
            # intensity is even in q); radial and tangential directions are those of the pixel itself
            ux, uy = float(d.qx_data[i])/q[i], float(d.qy_data[i])/q[i]
            mx, my = float(np.mean(qx[:, i])), float(np.mean(qy[:, i]))
            sg = 1.0 if (mx - q[i]*ux)**2 + (my - q[i]*uy)**2 <= (mx + q[i]*ux)**2 + (my + q[i]*uy)**2 else -1.0
            cx, cy = sg*q[i]*ux, sg*q[i]*uy
            dr = (qx[:, i] - cx)*ux + (qy[:, i] - cy)*uy
            dt = -(qx[:, i] - cx)*uy + (qy[:, i] - cy)*ux
            reach = 3.0*(1 - 1.0/res.nr)
            rho = np.array([np.max(np.abs(dr)), np.max(np.abs(dt))])
            if sr0[i] > 1e-9 and not (reach*sr0[i]*(1 - 1e-9) <= rho[0] <= 3.0*sr0[i]*(1 + 1e-9)):
                ok = False
            if st0[i] > 1e-9 and not (0.85*reach*st0[i] <= rho[1] <= 3.0*st0[i]*(1 + 1e-9)):
                ok = False
            if not ok:
                ctx = dict(ctx, pixel=i, sigma_r=float(sr0[i]), sigma_t=float(st0[i]), reach_r=float(rho[0]),
                           reach_t=float(rho[1]))
                break
        rec.check("support_spans_window", ok, dict(ctx, max_rho=float(rho.max()), nr=res.nr))
    if zero:
        g = lambda x, y: np.sin(37.0*np.hypot(x, y)) + 2.0 + x*y + x*x     # even: I(-q) = I(q)
        out = res.apply(g(qxc, qyc))
        direct = g(d.qx_data, d.qy_data)
        if d.dqx_data is None:
            rec.check("zero_width_exact", bool(np.array_equal(out, direct)), dict(ctx, kind="no resolution columns"))
        else:
            rec.check("zero_width_exact", bool(np.all(np.abs(out - direct) <= 1e-8*np.abs(direct))),
                      dict(ctx, kind="explicit zeros", worst=float(np.max(np.abs(out - direct)))))


def run_dm(case, rec):
    """scale and background pass through smearing linearly in DirectModel."""
    from sasmodels import core as sascore, data as sdata, direct_model
    model = sascore.load_model("sphere", platform="dll")
    rng = core.rng_for(case["seed"], PROP, "dm")
    q = np.logspace(-2.5, -0.6, 40)
    setups = []
    d = sdata.empty_data1D(q, resolution=0.08)
    setups.append(("pinhole", d))
    d = sdata.empty_data1D(q, resolution=0.0)
    d.dx = None
    d.dxl, d.dxw = np.full(len(q), 0.02), np.zeros(len(q))
    setups.append(("slit-length", d))
    d = sdata.empty_data1D(q, resolution=0.0)
    d.dx = None
    d.dxl, d.dxw = np.zeros(len(q)), np.full(len(q), 0.003)
    setups.append(("slit-width", d))
    d2 = sdata.empty_data2D(np.linspace(-0.1, 0.1, 12), resolution=0.05)
    setups.append(("2d", d2))
    # a detector image centred on the beam with an odd number of pixels: one pixel sits at q = 0 exactly
    ax = np.linspace(-0.1, 0.1, 11)
    ax[5] = 0.0
    setups.append(("2d-centre-pixel", sdata.empty_data2D(ax, resolution=0.05)))
    d3 = sdata.empty_data2D(ax, resolution=0.05)
    d3.dqx_data = d3.dqy_data = None
    setups.append(("2d-centre-pixel-no-resolution", d3))
    # per-point widths that mix zero and non-zero entries (merged data sets), in several proportions
    for frac in (0.03, 0.3, 0.9):
        d = sdata.empty_data1D(q, resolution=0.08)
        zero = rng.random(len(q)) < frac
        zero[int(rng.integers(len(q)))] = True
        zero[0] = False
        d.dx = np.where(zero, 0.0, d.dx)
        setups.append(("pinhole-mixed-zero-%g" % frac, d))
    install_invariants()
    for name, data in setups:
        _state["current"], _state["ctx"] = None, None
        calc = direct_model.DirectModel(data, model)
        if name.startswith("pinhole"):
            # the resolution object DirectModel chose must request theory over every non-zero window and leave
            # zero-width points exact
            res = calc.resolution
            dx = np.asarray(data.dx, float)
            ctx = {"geometry": "pinhole", "via": "DirectModel", "setup": name, "n": len(q), "_widths": (dx,)}

            def chk(mon, ok, **extra):
                return rec.check(mon, ok, None if ok else dict({k: v for k, v in ctx.items() if not k.startswith("_")}, **extra))
            judge_support(np.asarray(data.x, float), np.asarray(res.q_calc, float), "pinhole", ctx, chk)
            f = np.sin(37.0*res.q_calc) + 2.0 + res.q_calc
            out = np.asarray(res.apply(f), float)
            direct = np.sin(37.0*q) + 2.0 + q
            if np.any(dx == 0):
                rec.check("zero_width_exact", bool(np.array_equal(out[dx == 0], direct[dx == 0])),
                          {"via": "DirectModel", "setup": name, "max_abs_diff": float(np.max(np.abs(out - direct)[dx == 0]))})
            # a non-zero width must change a curved function
            smeared = np.abs(out - direct)[dx > 0]
            rec.check("nonzero_width_is_smeared", bool(np.all(smeared > 1e-9)),
                      {"via": "DirectModel", "setup": name, "unsmeared_points": int(np.sum(smeared <= 1e-9)),
                       "resolution_class": type(res).__name__})
            rec.bucket("directmodel:mixed-zero" if "mixed" in name else "directmodel:pinhole")
        pars = {"radius": 60.0, "sld": 1.0, "sld_solvent": 6.0}
        base = calc(scale=1.0, background=0.0, **pars)
        if name.startswith("2d"):
            qc_ = calc.resolution.q_calc
            qabs_ = np.hypot(np.asarray(qc_[0], float), np.asarray(qc_[1], float))
            rec.check("q_calc_strictly_positive", bool(np.all(np.isfinite(qabs_)) and np.all(qabs_ > 0)),
                      {"via": "DirectModel", "setup": name, "nonfinite": int(np.sum(~np.isfinite(qabs_))), "zeros": int(np.sum(qabs_ == 0))})
            flat_ = np.asarray(calc.resolution.apply(np.full(len(qabs_), 2.5)), float)
            rec.check("flat_unchanged", bool(np.all(np.abs(flat_ - 2.5) <= 1e-12)),
                      {"via": "DirectModel", "setup": name, "returned": flat_[:6], "nonfinite": int(np.sum(~np.isfinite(flat_)))})
            rec.check("theory_finite_for_every_returned_pixel", bool(np.all(np.isfinite(np.asarray(base, float)))),
                      {"via": "DirectModel", "setup": name, "nonfinite": int(np.sum(~np.isfinite(np.asarray(base, float))))})
            rec.bucket("directmodel:" + name)
        for _ in range(3):
            s, b = float(rng.uniform(0.01, 5)), float(rng.uniform(0, 3))
            got = calc(scale=s, background=b, **pars)
            exp = s*base + b
            key = "C03/slit-width-only-row-sum" if name == "slit-width" else None
            rec.check("linear_in_scale_background", core.close(got, exp, 1e-9, 1e-12),
                      {"setup": name, "scale": s, "background": b, "max_rel_err": core.maxrel(got, exp)}, key=key)
        rec.bucket("directmodel")
        rec.set_shape(("dm", name), True)
        # --- the same data object again after its widths were changed: the new calculator smears with the new
        # widths, exactly like a calculator on a fresh data object that carries them
        if name in ("pinhole", "slit-length", "slit-width", "2d"):
            import copy as _copy
            factor = float(rng.uniform(2.0, 4.0))
            if name == "pinhole":
                data.dx = np.asarray(data.dx, float)*factor
            elif name == "slit-length":
                data.dxl = np.asarray(data.dxl, float)*factor
            elif name == "slit-width":
                data.dxw = np.asarray(data.dxw, float)*factor
            else:
                data.dqx_data = np.asarray(data.dqx_data, float)*factor
                data.dqy_data = np.asarray(data.dqy_data, float)*factor
            fresh = _copy.deepcopy(data)
            for attr in [a_ for a_ in vars(fresh) if a_.startswith("_") and "cache" in a_.lower()]:
                delattr(fresh, attr)
            again = np.asarray(direct_model.DirectModel(data, model)(scale=1.0, background=0.0, **pars), float)
            ref = np.asarray(direct_model.DirectModel(fresh, model)(scale=1.0, background=0.0, **pars), float)
            same = bool(np.array_equal(again, ref, equal_nan=True))
            changed = bool(np.any(np.abs(again - base) > 1e-9*np.abs(base)))
            rec.check("smears_with_current_widths", same and changed,
                      {"setup": name, "widths_multiplied_by": factor, "equals_fresh_data_object": same,
                       "differs_from_result_with_old_widths": changed,
                       "max_rel_diff_to_fresh": core.maxrel(again, ref)})
            rec.bucket("directmodel:widths-changed-on-same-data-object")
    _run_replaced(rec, rng, model, q)


def _run_replaced(rec, rng, model, q):
    """A calculator whose resolution object the caller replaces before the first evaluation (the way to use one's own
    q_calc grid, another nsigma or accuracy with DirectModel): what comes back is that object's apply() of the theory on
    that object's q_calc."""
    from sasmodels import data as sdata, direct_model, resolution as sres, resolution2d
    pars = {"radius": 60.0, "sld": 1.0, "sld_solvent": 6.0}
    qc = np.linspace(0.4*q[0], 1.6*q[-1], 257)
    for kind in ("pinhole-own-grid", "slit-own-grid", "2d-other-nsigma"):
        _state["current"], _state["ctx"] = None, None
        if kind == "2d-other-nsigma":
            data = sdata.empty_data2D(np.linspace(-0.1, 0.1, 12), resolution=0.05)
        elif kind == "pinhole-own-grid":
            data = sdata.empty_data1D(q, resolution=0.08)
        else:
            data = sdata.empty_data1D(q, resolution=0.0)
            data.dx = None
            data.dxl, data.dxw = np.full(len(q), 0.02), np.zeros(len(q))
        calc = direct_model.DirectModel(data, model)
        if kind == "pinhole-own-grid":
            new = sres.Pinhole1D(q, np.asarray(data.dx, float), q_calc=qc)
        elif kind == "slit-own-grid":
            new = sres.Slit1D(q, q_length=np.full(len(q), 0.02), q_width=np.zeros(len(q)), q_calc=qc)
        else:
            new = resolution2d.Pinhole2D(data=data, index=calc.index, nsigma=float(rng.uniform(1.5, 2.5)))
        calc.resolution = new
        ctx = {"via": "DirectModel with its resolution object replaced before the first evaluation", "setup": kind}
        try:
            got = np.asarray(calc(scale=1.0, background=0.0, **pars), float)
            qin = new.q_calc
            kern = model.make_kernel([qin] if isinstance(qin, np.ndarray) else list(qin))
            theory = np.asarray(direct_model.call_kernel(kern, dict(pars, scale=1.0, background=0.0)), float)
            exp = np.asarray(new.apply(theory), float)
        except Exception as exc:
            rec.check("replaced_resolution_is_the_one_applied", False, dict(ctx, exception=repr(exc)[:400]),
                      key="C03/replaced-resolution")
            continue
        ok = got.shape == exp.shape and core.close(got, exp, 1e-10, 1e-13*float(np.max(np.abs(exp))))
        rec.check("replaced_resolution_is_the_one_applied", ok,
                  None if ok else dict(ctx, max_rel_err=core.maxrel(got, exp) if got.shape == exp.shape else None,
                                       returned=got[:6], expected=exp[:6]), key="C03/replaced-resolution")
        rec.bucket("directmodel:resolution-replaced:" + kind)
        rec.set_shape(("dm-replaced", kind), True)


def run_case(case, rec):
    install_invariants()
    if case.get("kind") == "dm":
        run_dm(case, rec)
    else:
        run_batch(case, rec)


def classify(case, v):
    k = v.get("key")
    if k:
        return k
    d = v.get("detail") or {}
    if isinstance(d, dict) and d.get("geometry") == "slit(0,W)" and v["monitor"] in (
            "weights_sum_to_one", "flat_unchanged", "linear_in_scale_background"):
        return "C03/slit-width-only-row-sum"
    if isinstance(d, dict) and str(d.get("geometry", "")).startswith("slit") and v["monitor"] == "support_spans_window" \
            and not d.get("user_q_calc") and d.get("width"):
        return "C03/slit-default-grid-extended-for-wrong-dimension"
    return None


LEVEL_TEXT = ("icontract class invariants on the real Pinhole1D/Slit1D judge every construction of a generated workload "
              "(grids x widths x q_calc choices) for sign, unit column sums, flat/linear pass-through, positive q_calc and "
              "window support; Pinhole2D and DirectModel are probed through apply()/calls.  Exploration.")
LEVEL_NOTE = "Support is judged to within one local grid step; 2-D explicit zero widths are held to 1e-8, not bit equality."
TECHNIQUE = "icontract class invariants evaluated on every construction + metamorphic probes of apply()"
