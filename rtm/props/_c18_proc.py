"""
Participant process of the C18 check: performs the real load_model + call_kernel
against a shared cache directory with source-free gates / failpoints installed
through sys.monitoring LINE events on kerneldll.make_dll, kerneldll.compile_model
and DllModel._load_dll.

    _c18_proc.py <model> <mode>        mode: gated | free | record | killline:<k> | kill:<ccgate> | plain
"""
import json
import linecache
import os
import signal
import sys
import time

here = os.path.dirname(os.path.abspath(__file__))
sys.path.insert(0, here)
import _c18_cc as ccmod  # noqa: E402

repo = os.environ.get("VERIF_REPO", "/repo")
sys.path.insert(0, repo)

model_name, mode = sys.argv[1], sys.argv[2]
ctrl = os.environ.get("RTM_C18_CTRL")
tag = os.environ.get("RTM_C18_TAG", "p")

from sasmodels import kerneldll, core, direct_model  # noqa: E402
import numpy as np  # noqa: E402

events = []
counter = [0]
TOOL = 3
mon = sys.monitoring
targets = {
    kerneldll.make_dll.__code__: "make_dll",
    kerneldll.compile_model.__code__: "compile_model",
    kerneldll.DllModel._load_dll.__code__: "_load_dll",
}
GATES = [("make_dll", "os.path.exists(dll)", "lookup")]
matched = set()
load_frames = {}


def _scan_gate(real):
    """A listing of the cache directory is a step of its own: the participant waits between taking the listing and
    using it (the unchanged code never lists the cache, so this gate never appears there)."""
    def wrapper(path=".", *a, **kw):
        out = real(path, *a, **kw)
        try:
            inside = os.path.abspath(os.fspath(path)) == os.path.abspath(kerneldll.SAS_DLL_PATH)
        except Exception:
            inside = False
        if inside and mode in ("gated", "free"):
            if real is _real_scandir:
                out = list(out)
            matched.add("scan")
            ccmod.gate(ctrl, tag, "scan", str(path))
            if real is _real_scandir:
                return _Listed(out)
        return out
    return wrapper


class _Listed(list):
    def __enter__(self):
        return self

    def __exit__(self, *a):
        return False

    def close(self):
        pass


_real_listdir, _real_scandir = os.listdir, os.scandir
os.listdir = _scan_gate(_real_listdir)
os.scandir = _scan_gate(_real_scandir)


def on_line(code, lineno):
    fn = targets.get(code)
    if fn is None:
        return mon.DISABLE
    text = linecache.getline(code.co_filename, lineno).strip()
    k = counter[0]
    counter[0] += 1
    if mode == "record":
        events.append([fn, text])
        return None
    if mode.startswith("killline:"):
        if k == int(mode.split(":")[1]) and fn != "_load_dll":
            with open(os.path.join(ctrl, tag + ".killed"), "w") as f:
                f.write(json.dumps([k, fn, text]))
            os.killpg(os.getpgid(0), signal.SIGKILL)
        return None
    if mode == "mkdirgate":
        # barrier just before the statement that creates the cache directory: every participant is held here until
        # the controller releases all of them together
        if fn == "make_dll" and "makedirs(" in text and "mkdir" not in matched:
            matched.add("mkdir")
            at = os.path.join(ctrl, tag + ".mkdir.at")
            open(at, "w").close()
            t0 = time.monotonic()
            while not os.path.exists(os.path.join(ctrl, "release")) and time.monotonic() - t0 < 120:
                time.sleep(0.0002)
        return None
    if fn == "_load_dll":
        # the load step starts where _load_dll starts: one gate per invocation, at its first statement
        fr = sys._getframe(1)
        if id(fr) not in load_frames:
            load_frames[id(fr)] = fr
            matched.add("load")
            if mode in ("gated", "free"):
                ccmod.gate(ctrl, tag, "load", str(getattr(fr.f_locals.get("self"), "dllpath", "")))
        return None
    for gfn, needle, gname in GATES:
        if fn == gfn and needle in text:
            matched.add(gname)
            if mode in ("gated", "free"):
                fr = sys._getframe(1)
                path = fr.f_locals.get("dll") or getattr(fr.f_locals.get("self"), "dllpath", "")
                ccmod.gate(ctrl, tag, gname, str(path))
    return None


if mode != "plain":
    mon.use_tool_id(TOOL, "rtm-c18")
    mon.register_callback(TOOL, mon.events.LINE, on_line)
    for code in targets:
        mon.set_local_events(TOOL, code, mon.events.LINE)

out = {"tag": tag, "pid": os.getpid()}
if mode.startswith("retry"):
    # first attempt in this process (the scripted compiler fails once); the outcome of the second attempt is
    # what is reported
    try:
        core.load_model(model_name)
        out["first_attempt"] = "succeeded"
    except BaseException as exc:  # noqa
        out["first_attempt"] = repr(exc)[:300]
try:
    if os.environ.get("RTM_C18_SYSTEM"):
        # the packaging path: core.precompile_dlls builds with make_dll(system=True) into the cache directory
        from sasmodels import generate
        info_ = core.load_model_info(model_name)
        src_ = generate.make_source(info_)["dll"]
        kerneldll.make_dll(src_, info_, dtype=np.dtype("d"), system=True)
    model = core.load_model(model_name)
    if os.environ.get("RTM_C18_EDITIONS"):
        # a second generated source for the same model id (another integration size) is built and used while the
        # first model is held unopened; the first is evaluated afterwards
        from sasmodels import generate
        info2 = core.load_model_info(model_name)
        generate.set_integration_size(info2, int(os.environ["RTM_C18_EDITIONS"]))
        model2 = core.build_model(info2)
        out["second_edition"] = [float(v) for v in direct_model.call_kernel(model2.make_kernel([np.array([0.01, 0.05, 0.2])]), {})]
    q = np.array([0.01, 0.05, 0.2])
    kernel = model.make_kernel([q])
    pars = {"radius": 40.0, "radius_pd": 0.1, "radius_pd_n": 5} if model_name == "sphere" else {}
    Iq = direct_model.call_kernel(kernel, pars)
    out["Iq"] = [float(v) for v in Iq]
    out["dll"] = getattr(model, "dllpath", None)
    out["ok"] = True
except BaseException as exc:  # noqa
    import traceback
    out["ok"] = False
    out["error"] = repr(exc)[:500]
    out["tb"] = traceback.format_exc()[-1500:]
out["gates_matched"] = sorted(matched)
if mode == "record":
    out["events"] = events
print("RTMRESULT " + json.dumps(out))
sys.stdout.flush()
# skip interpreter teardown (unloading a library another process may have replaced is not under test)
os._exit(0 if out["ok"] else 3)
