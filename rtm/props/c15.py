"""
C15 - precision conversion changes only floating types and literals.

A small C tokenizer in the harness aligns the token streams of the input and
of the real generate.convert_type output one to one and demands that only the
documented tokens differ.  Workloads: the generated sources of every compiled
model, generated C fragments full of tricky tokens, real builds at float32 /
long double compared with the double build, and every spelling of a precision
request.
"""
from __future__ import annotations

import re

import math
import os

import numpy as np

from rtm import core, sas

PROP = "C15"
LEVEL = "exploration"
RULE = ("(a) generated sources of all compiled models x {float32, float64, long double}; (b) generated C fragments that "
        "mix floating/integer/hex literals with and without suffixes, identifiers containing 'double' or looking like "
        "exponents (x1e3, struct3.e3, s.e3), casts, unnamed prototype parameters, adjacent keywords, strings and "
        "directives, with random legal spacing; (c) builds at float32 (models declared single-safe) and long double "
        "compared with the double build; (d) every spelling of a precision request x {'', '!'}.  Distinct: hash of the "
        "token sequence (b) or (model, dtype) (a, c).  Non-trivial: the input contains at least one token the "
        "conversion must change and one it must not.")
ASSUMPTIONS = [
    "already-suffixed and hexadecimal floating literals only need to be unchanged; text inside comments is ignored",
    "doubleN (N=2,4,8,16) and cdouble are type names (documented in the source) and convert like double",
    "the harness tokenizer follows C preprocessing-number rules",
]
REQUIRED_MONITORS = ["only_documented_tokens_change", "float_size_line", "builds_and_agrees_with_double",
                     "spelling_selects_type", "every_part_has_requested_dtype"]
REQUIRED_BUCKETS = {"quick": ["a:float32", "a:float64", "a:longdouble", "b:fragment", "c:float32", "c:longdouble",
                              "d:spelling", "c:dispersity-with-cutoff", "c:magnetic-2d", "switch:single-precision-libraries-not-allowed", "system-build:float32", "system-build:float64", "system-build:longdouble", "frag:adjacent-double", "frag:string", "frag:hexfloat", "frag:suffixed",
                              "frag:int-promotion", "frag:exponent-identifier", "frag:multiline-comment",
                              "c:q-exactly-zero", "c:q-exactly-on-particle-axes", "composite:with-python-component",
                              "shipped:single!", "shipped:quad!", "shipped:double!", "two-precisions-built-at-the-same-time", "c:mesh>100"]}
REQUIRED_BUCKETS["thorough"] = REQUIRED_BUCKETS["quick"]

FUNCS = set("sin cos tan asin acos atan sinh cosh tanh asinh acosh atanh atan2 erf erfc tgamma exp exp2 exp10 expm1 "
            "log log2 log10 log1p pow pown powr sqrt rsqrt rootn fabs fmax fmin".split())

# ---------------------------------------------------------------------------
# tokenizer
# ---------------------------------------------------------------------------

_COMMENT = re.compile(r'//[^\n]*|/\*.*?\*/|("(?:\\.|[^"\\\n])*"|\'(?:\\.|[^\'\\\n])*\')', re.S)
_TOKEN = re.compile(r'''
    (?P<str>"(?:\\.|[^"\\\n])*"|'(?:\\.|[^'\\\n])*')
  | (?P<num>\.?\d(?:[eEpP][+-]|[\w.])*)
  | (?P<id>[A-Za-z_]\w*)
  | (?P<op><<=|>>=|\.\.\.|->|\+\+|--|<<|>>|<=|>=|==|!=|&&|\|\||[-+*/%&|^]=|\#\#|[-+*/%&|^~!=<>?:;,.(){}\[\]\#\\@$`])
  | (?P<ws>\s+)
''', re.X)


def strip_comments(text):
    return _COMMENT.sub(lambda m: m.group(1) if m.group(1) else " ", text)


def tokenize(text):
    text = strip_comments(text)
    out = []
    pos = 0
    while pos < len(text):
        m = _TOKEN.match(text, pos)
        if not m:
            out.append(("?", text[pos]))
            pos += 1
            continue
        pos = m.end()
        kind = m.lastgroup
        if kind != "ws":
            out.append((kind, m.group()))
    return out


def num_class(tok):
    t = tok
    if re.fullmatch(r'0[xX][0-9a-fA-F]*\.?[0-9a-fA-F]*[pP][+-]?\d+[fFlL]?', t):
        return "hexfloat"
    if re.fullmatch(r'(0[xX][0-9a-fA-F]+|\d+)[uUlL]*', t):
        return "int"
    if re.fullmatch(r'(\d+\.\d*|\.\d+|\d+)([eE][+-]?\d+)?', t) and (("." in t) or ("e" in t.lower())):
        return "float"
    if re.fullmatch(r'(\d+\.\d*|\.\d+|\d+)([eE][+-]?\d+)?[fFlL]', t) and (("." in t) or ("e" in t.lower()[:-1])):
        return "float-suffixed"
    return "other"


def expected_tokens(tokens, type_words, suffix):
    """The documented transformation applied to a token stream."""
    out = []
    n = len(tokens)
    for k, (kind, t) in enumerate(tokens):
        if kind == "id":
            m = re.fullmatch(r'(c?)double((?:[248]|16)?)', t)
            if m and type_words != ["double"]:
                words = list(type_words)
                words[0] = m.group(1) + words[0]
                words[-1] = words[-1] + m.group(2)
                out.extend(("id", w) for w in words)
            else:
                out.append((kind, t))
        elif kind == "num":
            c = num_class(t)
            if c == "float":
                out.append((kind, t + suffix))
            elif c == "int" and re.fullmatch(r'0|[1-9]\d*', t) and _is_first_arg(tokens, k):
                out.append((kind, t + "." + suffix))
            else:
                out.append((kind, t))
        else:
            out.append((kind, t))
    return out


def _is_first_arg(tokens, k):
    # func ( [sign] INT followed by , or )
    j = k - 1
    if j >= 0 and tokens[j] in (("op", "+"), ("op", "-")):
        j -= 1
    if j < 1 or tokens[j] != ("op", "("):
        return False
    if tokens[j-1][0] != "id" or tokens[j-1][1] not in FUNCS:
        return False
    return k + 1 < len(tokens) and tokens[k+1] in (("op", ","), ("op", ")"))


DT = {"float32": (["float"], "f", 4), "float64": (["double"], "", 8), "longdouble": (["long", "double"], "L", 16)}


def np_dtype(name):
    return np.dtype({"float32": "f4", "float64": "f8", "longdouble": np.longdouble}[name])


def compare_streams(rec, src, dtype_name, ctx, bucket_known=None):
    from sasmodels import generate
    words, suffix, size = DT[dtype_name]
    out = generate.convert_type(src, np_dtype(dtype_name))
    first, _, rest = out.partition("\n")
    rec.check("float_size_line", first.strip() == "#define FLOAT_SIZE %d" % size, dict(ctx, first_line=first[:80]))
    tin = tokenize(src)
    tout = tokenize(rest)
    texp = expected_tokens(tin, words, suffix)
    ok = (tout == texp)
    if ok:
        rec.check("only_documented_tokens_change", True)
        return True
    # locate the first difference for the witness
    k = 0
    while k < min(len(tout), len(texp)) and tout[k] == texp[k]:
        k += 1
    got = tout[k] if k < len(tout) else None
    exp = texp[k] if k < len(texp) else None
    key = None
    if exp and got and exp[0] == "str" and got[0] == "str":
        key = "C15/string-literal-rewritten"
    elif exp and got and exp[1] in ("float", "long") and got[1] == "double":
        key = "C15/adjacent-double-keyword-not-converted"
    rec.check("only_documented_tokens_change", False,
              dict(ctx, dtype=dtype_name, position=k, expected=[t for _, t in texp[max(0, k-4):k+4]],
                   got=[t for _, t in tout[max(0, k-4):k+4]]), key=key)
    return False


# ---------------------------------------------------------------------------
# fragments
# ---------------------------------------------------------------------------

IDS = ["x", "x1e3", "double_t", "mydouble", "doubles", "a", "s", "struct3", "e3", "idouble", "e", "f", "L", "p3", "q",
       "radius", "doublet", "_double", "double2x", "E5", "x0"]
KEYS = ["double", "double", "double", "float", "int", "long", "unsigned", "const", "return", "sizeof", "static",
        "double2", "double4", "double16", "cdouble", "void"]
NUMS = ["1", "0", "37", "03", "0x1F", "1u", "10L", "1e3", "3.f", ".5", "5.", "0.0", "1.0e-3", "2E+5", "0x1.8p3",
        "1.5f", "2.0L", "1e3F", "6.02e23", "0.", "1.e0", ".6e+9", "845.017e+22", "0e+001", "100", "0x1p-2", "7.F"]
OPS = list("+-*/(),;=<>?:&|!%[]{}") + ["==", "->", "<=", "&&", "."]
STRS = ['"double 1.0"', '"%g\\n"', "'d'", '"a double"', '"1e3"', '"x"']
CALLS = [["sin", "(", "2", ")"], ["pow", "(", "2", ",", "3", ")"], ["exp", "(", "-1", ")"], ["cos", "(", "+3", ")"],
         ["sqrt", "(", "4", ")"], ["fabs", "(", "0", ")"], ["atan2", "(", "1", ",", "2", ")"],
         ["log10", "(", "100", ")"], ["cos", "(", "x", ")"], ["myexp", "(", "2", ")"], ["fmax", "(", "3", ",", "x", ")"],
         ["sin", "(", "2.5", ")"], ["exp", "(", "02", ")"], ["pow", "(", "x", ",", "2", ")"], ["erf", "(", "1u", ")"],
         ["sinh", "(", "10", ")"]]
SNIPPETS = [["double", "f", "(", "double", ",", "double", ")", ";"],
            ["(", "double", ")", "x"], ["(", "double", "*", ")", "p3"],
            ["struct3", ".", "e3"], ["s", ".", "e3"], ["a", ".", "x1e3"], ["x", "-", "1e3"], ["x", "+", ".5"],
            ["const", "double", "x", "=", "1.0", ";"], ["double", "double_t", ";"],
            ["double", "*", "double_t", "=", "(", "double", "*", ")", "q", ";"],
            ["#", "define", "E5", "1e5"], ["return", "3.75", "+", "-", "1.6e-7", "-", "27", "+", "13.2", ";"],
            ["a", "[", "3", "]", "=", "4.", "*", "atan", "(", "1.", ")", ";"],
            ["unsigned", "long", "x0", "=", "10L", ";"], ["double", ",", "double"], ["double", "(", "double", ")"]]


def needs_space(a, b):
    """Would the two tokens merge (or lex differently) if written without a separator?"""
    t = tokenize(a + b)
    return [x for _, x in t] != [a, b]


def gen_fragment(rng):
    toks = []
    tags = set()
    for _ in range(int(rng.integers(4, 14))):
        r = rng.random()
        if r < 0.22:
            sn = SNIPPETS[int(rng.integers(len(SNIPPETS)))]
            toks += sn
            if sn[:3] == ["double", ",", "double"] or sn[:4] == ["double", "f", "(", "double"] or \
                    sn[:3] == ["double", "(", "double"]:
                tags.add("frag:adjacent-double")
            if any(re.fullmatch(r'[a-z]+\d*e\d+', t) for t in sn if t in ("x1e3", "e3")):
                tags.add("frag:exponent-identifier")
        elif r < 0.38:
            c = CALLS[int(rng.integers(len(CALLS)))]
            toks += c
            tags.add("frag:int-promotion")
        elif r < 0.55:
            toks.append(NUMS[int(rng.integers(len(NUMS)))])
        elif r < 0.68:
            toks.append(IDS[int(rng.integers(len(IDS)))])
        elif r < 0.80:
            toks.append(KEYS[int(rng.integers(len(KEYS)))])
        elif r < 0.86:
            toks.append(STRS[int(rng.integers(len(STRS)))])
            tags.add("frag:string")
        else:
            toks.append(OPS[int(rng.integers(len(OPS)))])
    # a literal is never directly preceded by '.' or an identifier-ish token (that would be a different token)
    text = ""
    for k, t in enumerate(toks):
        if k:
            prev = toks[k-1]
            ident = r'[A-Za-z_]\w*$'
            force = needs_space(prev, t) or (re.match(ident, prev) and t.startswith("."))
            if force or rng.random() < 0.35:
                seps = [" ", " ", "\n", "\t"]
                # the documented rewriting is textual: comments only between plain words / after ';'
                if (re.match(ident, prev) and prev not in FUNCS and re.match(ident, t)) or prev == ";":
                    seps.append(" /* 1.0.8 double */ ")
                    if rng.random() < 0.5:
                        # a block comment that spans lines, with code following its terminator on the same line
                        seps.append(" /* first line 2.5\n   second line double 1e3 */ ")
                chosen_sep = seps[int(rng.integers(len(seps)))]
                if "second line" in chosen_sep:
                    tags.add("frag:multiline-comment")
                text += chosen_sep
        text += t
    for t in toks:
        c = num_class(t) if re.match(r'\.?\d', t) else None
        if c == "hexfloat":
            tags.add("frag:hexfloat")
        if c == "float-suffixed":
            tags.add("frag:suffixed")
    return text, toks, tags


# ---------------------------------------------------------------------------

def gen_cases(tier, seed):
    cases = []
    models = sas.compiled_models()
    for m in models:
        cases.append({"id": "src/" + m, "kind": "src", "model": m, "group": "src-" + m, "cost": 0.5})
    nb, per = (10, 200) if tier == "quick" else (100, 400)
    for b in range(nb):
        cases.append({"id": "frag/%03d" % b, "kind": "frag", "batch": b, "n": per, "seed": seed, "group": "frag%d" % b})
    single_ok = [m for m in models if sas.info(m).single]
    rng = core.rng_for(seed, PROP, "build")
    f32 = single_ok if tier == "thorough" else [single_ok[int(k)] for k in rng.permutation(len(single_ok))[:8]]
    f128 = models if tier == "thorough" else [models[int(k)] for k in rng.permutation(len(models))[:8]]
    for m in sorted(set(f32) | {"sphere", "cylinder", "hollow_cylinder", "core_shell_bicelle"}):
        cases.append({"id": "build32/" + m, "kind": "build", "model": m, "dtype": "float32", "seed": seed,
                      "group": "b-" + m, "cost": 2})
    for m in sorted(set(f128) | {"sphere", "cylinder"}):
        cases.append({"id": "build128/" + m, "kind": "build", "model": m, "dtype": "longdouble", "seed": seed,
                      "group": "b-" + m, "cost": 2})
    cases.append({"id": "spellings", "kind": "spell", "group": "spell", "cost": 5})
    for m, dd in (("sphere", "float32"), ("sphere", "float64"), ("sphere", "longdouble"), ("cylinder", "float32"),
                  ("hardsphere", "float64"), ("core_shell_sphere", "longdouble")):
        cases.append({"id": "system/%s-%s" % (m, dd), "kind": "system", "model": m, "dtype": dd, "group": "sys-" + m, "cost": 3})
    for m, sp in (("sphere", "single!"), ("cylinder", "single"), ("sphere@hardsphere", "float32")):
        cases.append({"id": "noflag/%s-%s" % (m, sp), "kind": "noflag", "model": m, "spelling": sp, "group": "nf-" + m, "cost": 3})
    for m, sp in (("sphere", "single!"), ("cylinder", "quad!"), ("sphere", "double!"), ("ellipsoid", "single")):
        cases.append({"id": "shipped/%s-%s" % (m, sp), "kind": "shipped", "model": m, "spelling": sp, "group": "sh-" + m + sp, "cost": 3})
    for m in ("guinier", "sphere"):
        cases.append({"id": "together/" + m, "kind": "together", "model": m, "group": "tg-" + m, "cost": 6})
    for e in COMPOSITES:
        cases.append({"id": "composite/" + e, "kind": "composite", "expr": e, "group": "comp-" + e, "cost": 4})
    return cases


def run_src(case, rec):
    from sasmodels import generate
    i = sas.info(case["model"])
    src = generate.make_source(i)["dll"]
    for d in ("float32", "float64", "longdouble"):
        compare_streams(rec, src, d, {"model": case["model"]})
        rec.bucket("a:" + d)
        rec.set_shape((case["model"], d), True)
    rec.observe(model=case["model"], tokens=len(tokenize(src)))


def run_frag(case, rec):
    rng = core.rng_for(case["seed"], PROP, "frag", case["batch"])
    for k in range(case["n"]):
        text, toks, tags = gen_fragment(rng)
        d = ["float32", "longdouble", "float64"][k % 3]
        compare_streams(rec, text, d, {"fragment": text[:300]})
        rec.bucket("b:fragment", *tags)
        must_change = any(t == "double" or (re.match(r'\.?\d', t) and num_class(t) == "float") for t in toks)
        must_stay = any(t in IDS or (re.match(r'\.?\d', t) and num_class(t) != "float") for t in toks)
        rec.set_shape(toks, nontrivial=must_change and must_stay)
        if k < 2:
            rec.observe(**{"fragment%d" % k: text[:200]})


def run_build(case, rec):
    from sasmodels import core as sascore, direct_model
    name, d = case["model"], case["dtype"]
    i = sas.info(name)
    rng = core.rng_for(case["seed"], PROP, "build", name)
    pars = sas.base_pars(i, 5, style="default")
    s = sas.size_scale(i, pars)
    q = np.exp(np.linspace(np.log(0.05/s), np.log(5.0/s), 6))
    spelling = {"float32": "single!", "longdouble": "quad!"}[d]
    m64 = sascore.build_model(i, dtype="double!", platform="dll")
    mx = sascore.build_model(i, dtype=spelling, platform="dll")
    k64, kx = m64.make_kernel([q]), mx.make_kernel([q])
    I64 = np.asarray(direct_model.call_kernel(k64, dict(pars)), float)
    Ix = direct_model.call_kernel(kx, dict(pars))
    ok_dtype = (np.dtype(mx.dtype) == np_dtype(d) and np.asarray(Ix).dtype == np_dtype(d))
    rec.check("built_model_has_requested_dtype", ok_dtype,
              {"model": name, "requested": d, "model_dtype": str(mx.dtype), "result_dtype": str(np.asarray(Ix).dtype)})
    Ix = np.asarray(Ix, float)
    bg = pars.get("background", 0.0)
    scale = float(np.max(np.abs(I64 - bg))) if len(I64) else 1.0
    if d == "float32":
        ok = core.close(Ix, I64, 2e-3, 1e-5*scale + 1e-6)
    else:
        # the long-double kernel is the more accurate one; the statement only promises agreement "to within
        # the requested precision" for single precision, so this merely catches a broken build
        # (ill-conditioned double expressions differ from long double by ~1e-6 at tiny q)
        ok = core.close(Ix, I64, 1e-4, 1e-6*scale)
    rec.check("builds_and_agrees_with_double", ok,
              None if ok else {"model": name, "dtype": d, "q": q, "double": I64, "other": Ix,
                               "max_rel_err": core.maxrel(Ix, I64, 1e-10*scale)},
              key="C15/float32-disagrees/%s" % name if d == "float32" else None)
    # the mirrored q axis (the kernels accept negative q; a symmetric scan passes it): where the double kernel gives the
    # same curve for -q as for q, the other precision does too
    N64 = np.asarray(direct_model.call_kernel(m64.make_kernel([-q]), dict(pars)), float)
    if np.all(np.isfinite(N64)) and core.close(N64, I64, 1e-9, 1e-12*scale):
        Nx = np.asarray(direct_model.call_kernel(mx.make_kernel([-q]), dict(pars)), float)
        okn = core.close(Nx, N64, 2e-3, 1e-5*scale + 1e-6) if d == "float32" else core.close(Nx, N64, 1e-4, 1e-6*scale)
        rec.check("builds_and_agrees_with_double", okn,
                  None if okn else {"model": name, "dtype": d, "case": "negative q", "q": -q, "double": N64, "other": Nx,
                                    "max_rel_err": core.maxrel(Nx, N64, 1e-10*scale)},
                  key="C15/float32-disagrees/%s" % name if d == "float32" else None)
        rec.bucket("c:negative-q")
    # q exactly zero, and for oriented shapes q exactly perpendicular / parallel to the particle axis (arguments of
    # the special functions exactly zero): where the double kernel is defined, the other precision is too
    tol_r, tol_a = (2e-3, 1e-5) if d == "float32" else (1e-4, 1e-6)
    z64 = np.asarray(direct_model.call_kernel(m64.make_kernel([np.array([0.0])]), dict(pars)), float)
    zx = np.asarray(direct_model.call_kernel(mx.make_kernel([np.array([0.0])]), dict(pars)), float)
    if np.all(np.isfinite(z64)):
        okz = bool(np.all(np.isfinite(zx))) and core.close(zx, z64, tol_r, tol_a*float(np.max(np.abs(z64))) + 1e-6)
        rec.check("builds_and_agrees_with_double", okz,
                  None if okz else {"model": name, "dtype": d, "case": "q = 0", "double": z64, "other": zx},
                  key="C15/float32-disagrees/%s" % name if d == "float32" else None)
        rec.bucket("c:q-exactly-zero")
    if i.parameters.orientation_parameters:
        op = dict(pars)
        for a_ in i.parameters.orientation_parameters:
            op[a_.name] = {"theta": 90.0, "phi": 0.0}.get(a_.name, 0.0)
        qq_ = float(q[2])
        qa_ = [np.array([0.0, qq_, 0.0, -qq_]), np.array([qq_, 0.0, -qq_, 0.0])]
        o64 = np.asarray(direct_model.call_kernel(m64.make_kernel(qa_), dict(op)), float)
        ox = np.asarray(direct_model.call_kernel(mx.make_kernel(qa_), dict(op)), float)
        fin_ = np.isfinite(o64)
        if np.any(fin_):
            oko = bool(np.all(np.isfinite(ox[fin_]))) and core.close(ox[fin_], o64[fin_], tol_r, tol_a*float(np.max(np.abs(o64[fin_]))) + 1e-6)
            rec.check("builds_and_agrees_with_double", oko,
                      None if oko else {"model": name, "dtype": d, "case": "2-D q exactly along / across the particle axis",
                                        "qx": qa_[0], "qy": qa_[1], "double": o64, "other": ox},
                      key="C15/float32-disagrees/%s" % name if d == "float32" else None)
            rec.bucket("c:q-exactly-on-particle-axes")
    if d == "longdouble" and (i.parameters.orientation_parameters or i.parameters.nmagnetic > 0):
        # where the double kernel is well conditioned (a detector image at q*size of order one, generic view angles, with
        # and without a magnetised SLD) the long-double kernel agrees with it to the precision of a double: its constants
        # and conversions are at least as accurate (the unchanged tree agrees to 1e-14 here for every oriented shape)
        gp = dict(pars)
        for a_ in i.parameters.orientation_parameters:
            gp[a_.name] = 25.0
        qg = np.array([0.3, 0.6, 1.0, 1.5, 2.0, 3.0, 4.0, 6.0])/s
        qxy = [qg*0.8, qg*0.6]
        variants = [("oriented 2-D", gp)] if i.parameters.orientation_parameters else []
        slds_g = [p_.name for p_ in i.parameters.call_parameters if p_.type == "sld" and p_.name in sas.active_names(i, pars)]
        if i.parameters.nmagnetic > 0 and slds_g:
            variants.append(("magnetic 2-D", dict(gp, **{slds_g[0] + "_M0": 2.0, slds_g[0] + "_mtheta": 35.0, slds_g[0] + "_mphi": 60.0,
                                                       "up_frac_i": 0.3, "up_frac_f": 0.7, "up_theta": 70.0, "up_phi": 20.0})))
        # conditioning probe: models whose plain 1-D double evaluation already differs from long double at these q (sums of
        # nearly cancelling terms) are left out
        P64 = np.asarray(direct_model.call_kernel(m64.make_kernel([qg]), dict(pars)), float)
        Px = np.asarray(direct_model.call_kernel(mx.make_kernel([qg]), dict(pars)), float)
        if not (np.all(np.isfinite(P64)) and core.close(Px, P64, 1e-13, 1e-15*float(np.max(np.abs(P64 - bg))))):
            variants = []
            rec.count("long_double_probe_skipped_ill_conditioned")
        for label, vp in variants:
            G64 = np.asarray(direct_model.call_kernel(m64.make_kernel(qxy), dict(vp)), float)
            Gx = np.asarray(direct_model.call_kernel(mx.make_kernel(qxy), dict(vp)), float)
            if not np.all(np.isfinite(G64)):
                continue
            okg = core.close(Gx, G64, 1e-12, 1e-13*float(np.max(np.abs(G64 - bg))))
            rec.check("long_double_at_least_double_accurate", okg,
                      None if okg else {"model": name, "case": label + ", q*size of order one", "double": G64, "long_double": Gx,
                                        "max_rel_err": core.maxrel(Gx, G64)}, key="C15/long-double-less-accurate-than-double")
            rec.bucket("c:long-double-well-conditioned-" + label.split()[0])
    # the same with a size distribution and a non-zero weight cutoff (the cutoff is a real-valued argument of the
    # compiled kernel too); cutoffs are placed between two weight levels so that no point sits on the threshold
    cand = [p_ for p_ in sas.usable_pd(i, pars, "1d") if p_.type == "volume"]
    if cand:
        from sasmodels import weights as sasweights
        p_ = cand[0]
        room = min(abs(pars[p_.name] - p_.limits[0]), abs(p_.limits[1] - pars[p_.name]))/abs(pars[p_.name])
        wd = min(0.15, 0.9*room/3.0)
        if wd > 0:
            pdp = dict(pars, **{p_.name + "_pd": wd, p_.name + "_pd_n": 15, p_.name + "_pd_nsigma": 3.0, p_.name + "_pd_type": "gaussian"})
            _, ww = sasweights.get_weights("gaussian", 15, wd, 3.0, pars[p_.name], p_.limits, True)
            lv = np.unique(np.round(np.sort(ww), 12))
            cuts = [float(math.sqrt(lv[j]*lv[j + 1])) for j in (0, len(lv)//2) if j + 1 < len(lv) and lv[j + 1]/lv[j] > 1.3]
            for cut in [0.0] + cuts:
                J64 = np.asarray(direct_model.call_kernel(k64, dict(pdp), cutoff=cut), float)
                Jx = np.asarray(direct_model.call_kernel(kx, dict(pdp), cutoff=cut), float)
                sc_ = float(np.max(np.abs(J64 - bg))) if len(J64) else 1.0
                okc = core.close(Jx, J64, 2e-3 if d == "float32" else 1e-4, (1e-5 if d == "float32" else 1e-6)*sc_ + 1e-6)
                rec.check("builds_and_agrees_with_double", okc,
                          None if okc else {"model": name, "dtype": d, "dispersed": p_.name, "cutoff": cut, "double": J64, "other": Jx,
                                            "max_rel_err": core.maxrel(Jx, J64, 1e-10*sc_)},
                          key="C15/float32-disagrees/%s" % name if d == "float32" else None)
            rec.bucket("c:dispersity-with-cutoff")
            # a mesh of more than 100 points (the compiled kernel is re-entered with its running sums, which have the
            # requested precision too)
            pdb = dict(pdp, **{p_.name + "_pd_n": 150})
            B64 = np.asarray(direct_model.call_kernel(k64, dict(pdb)), float)
            Bx = np.asarray(direct_model.call_kernel(kx, dict(pdb)), float)
            scb = float(np.max(np.abs(B64 - bg))) if len(B64) else 1.0
            okb = core.close(Bx, B64, 2e-3 if d == "float32" else 1e-4, (1e-5 if d == "float32" else 1e-6)*scb + 1e-6)
            rec.check("builds_and_agrees_with_double", okb,
                      None if okb else {"model": name, "dtype": d, "dispersed": p_.name, "mesh_points": 150, "double": B64, "other": Bx,
                                        "max_rel_err": core.maxrel(Bx, B64, 1e-10*scb)},
                      key="C15/float32-disagrees/%s" % name if d == "float32" else None)
            rec.bucket("c:mesh>100")
    # 2-D with a magnetised SLD: the magnetic branch of the kernel template in the requested precision
    if i.parameters.nmagnetic > 0:
        slds_ = [p_.name for p_ in i.parameters.call_parameters if p_.type == "sld" and p_.name in sas.active_names(i, pars)]
        if slds_:
            qx_, qy_ = q[:4]*0.8, q[:4]*0.6
            mp = dict(pars, **{slds_[0] + "_M0": 2.0, slds_[0] + "_mtheta": 35.0, slds_[0] + "_mphi": 60.0,
                               "up_frac_i": 0.3, "up_frac_f": 0.7, "up_theta": 70.0, "up_phi": 20.0})
            for a_ in i.parameters.orientation_parameters:
                mp[a_.name] = 25.0
            M64 = np.asarray(direct_model.call_kernel(m64.make_kernel([qx_, qy_]), dict(mp)), float)
            Mx = np.asarray(direct_model.call_kernel(mx.make_kernel([qx_, qy_]), dict(mp)), float)
            scm = float(np.max(np.abs(M64 - bg))) if len(M64) else 1.0
            okm = core.close(Mx, M64, 2e-3 if d == "float32" else 1e-4, (1e-5 if d == "float32" else 1e-6)*scm + 1e-6)
            rec.check("builds_and_agrees_with_double", okm,
                      None if okm else {"model": name, "dtype": d, "case": "2-D magnetic", "double": M64, "other": Mx,
                                        "max_rel_err": core.maxrel(Mx, M64, 1e-10*scm)},
                      key="C15/float32-disagrees/%s" % name if d == "float32" else None)
            rec.bucket("c:magnetic-2d")
    prefix = {"float32": "sas32_", "longdouble": "sas128_"}[d]
    import os
    rec.check("library_prefix", os.path.basename(mx.dllpath).startswith(prefix),
              {"model": name, "dll": os.path.basename(mx.dllpath), "expected_prefix": prefix})
    rec.bucket("c:" + d)
    rec.set_shape((name, d, "build"), True)
    rec.observe(model=name, dtype=d, double=I64[:3], other=Ix[:3])


SPELLINGS = {"single": 4, "float32": 4, "f": 4, "fast": 4, "double": 8, "float64": 8, "d": 8, "default": 8, None: 8,
             "quad": 16, "longdouble": 16}


def run_spell(case, rec):
    from sasmodels import core as sascore, direct_model
    import os
    i = sas.info("sphere")
    q = np.array([0.01, 0.1])
    for sp, size in SPELLINGS.items():
        for bang in ("", "!"):
            if sp is None and bang:
                continue
            spelling = None if sp is None else sp + bang
            dt, fast, platform = sascore.parse_dtype(i, spelling, "dll")
            rec.check("spelling_selects_type", np.dtype(dt).itemsize == size and platform == "dll"
                      and fast == (sp == "fast"),
                      {"spelling": spelling, "got": str(dt), "expected_bytes": size, "platform": platform})
            model = sascore.build_model(i, dtype=spelling, platform="dll")
            I = direct_model.call_kernel(model.make_kernel([q]), {})
            pre = {4: "sas32_", 8: "sas64_", 16: "sas128_"}[size]
            rec.check("spelling_selects_type",
                      np.dtype(model.dtype).itemsize == size and np.asarray(I).dtype.itemsize == size
                      and os.path.basename(model.dllpath).startswith(pre),
                      {"spelling": spelling, "model_dtype": str(model.dtype), "result_dtype": str(np.asarray(I).dtype),
                       "dll": os.path.basename(model.dllpath)})
            rec.set_shape(("spelling", spelling), True)
    # the same table for models flagged double-only and when a GPU platform was asked for but none exists:
    # the request decides, not the flag or the fallback
    for mname in ("hardsphere", "fcc_paracrystal", "sphere"):
        mi = sas.info(mname)
        for platform_req in ("ocl", "dll"):
            for sp, size in (("single", 4), ("single!", 4), ("float32", 4), ("double", 8), ("quad", 16), (None, 8)):
                dt, fast, platform = sascore.parse_dtype(mi, sp, platform_req)
                okp = np.dtype(dt).itemsize == size
                model = sascore.build_model(mi, dtype=sp, platform=platform_req)
                I = direct_model.call_kernel(model.make_kernel([q]), {})
                okb = np.dtype(model.dtype).itemsize == size and np.asarray(I).dtype.itemsize == size
                rec.check("spelling_selects_type", okp and okb,
                          {"model": mname, "model_flagged_single": bool(mi.single), "spelling": sp, "platform_requested": platform_req,
                           "parse_dtype": str(dt), "model_dtype": str(model.dtype), "result_dtype": str(np.asarray(I).dtype),
                           "expected_bytes": size})
        rec.bucket("d:double-only-model" if not mi.single else "d:single-capable-model")
    rec.bucket("d:gpu-platform-falls-back")
    # half precision is refused
    for spelling in ("half", "half!", "float16"):
        try:
            model = sascore.build_model(i, dtype=spelling, platform="dll")
            direct_model.call_kernel(model.make_kernel([q]), {})
            rec.check("half_refused", False, {"spelling": spelling})
        except Exception:
            rec.check("half_refused", True)
    rec.bucket("d:spelling")


COMPOSITES = ["sphere@hardsphere", "cylinder@squarewell", "sphere+cylinder", "sphere*line", "ellipsoid@squarewell+sphere",
              "core_shell_sphere@stickyhardsphere",
              # a pure-python component (always double) before / after a compiled one
              "power_law+sphere", "sphere+power_law", "broad_peak*cylinder", "power_law+cylinder@hardsphere"]


def _leaves(model):
    if hasattr(model, "P") and hasattr(model, "S") and model.P is not None:
        return _leaves(model.P) + _leaves(model.S)
    if hasattr(model, "parts"):
        out = []
        for part in model.parts:
            out += _leaves(part)
        return out
    return [model]


def run_composite(case, rec):
    """The precision request reaches every compiled part of a composite model."""
    from sasmodels import core as sascore, direct_model
    expr = case["expr"]
    for spelling, size in (("single!", 4), ("quad!", 16), ("double!", 8), ("float32", 4), ("longdouble", 16), ("single", 4)):
        model = sascore.load_model(expr, dtype=spelling, platform="dll")
        got = []
        for leaf in _leaves(model):
            if hasattr(leaf, "dllpath"):
                got.append((leaf.info.id, np.dtype(leaf.dtype).itemsize, os.path.basename(leaf.dllpath)))
        pre = {4: "sas32_", 8: "sas64_", 16: "sas128_"}[size]
        # (pure-python parts are always double; a composite reports the type of its first part)
        first_compiled = hasattr(_leaves(model)[0], "dllpath")
        ok = bool(got) and all(sz == size and dll.startswith(pre) for _, sz, dll in got) \
            and (np.dtype(model.dtype).itemsize == size or not first_compiled)
        rec.check("every_part_has_requested_dtype", ok,
                  None if ok else {"expression": expr, "spelling": spelling, "expected_itemsize": size,
                                   "composite_dtype": str(model.dtype), "parts": got})
        if size in (4, 16):
            # the composite in the requested precision agrees with double to single precision
            q = [np.array([0.011, 0.043, 0.17])]
            I4 = np.asarray(direct_model.call_kernel(model.make_kernel(q), {}), float)
            m8 = sascore.load_model(expr, dtype="double!", platform="dll")
            I8 = np.asarray(direct_model.call_kernel(m8.make_kernel(q), {}), float)
            rec.check("builds_and_agrees_with_double", core.close(I4, I8, 2e-3, 1e-6*float(np.max(np.abs(I8)))),
                      {"expression": expr, "spelling": spelling, "requested_precision": I4, "double": I8})
            if any(not hasattr(leaf, "dllpath") for leaf in _leaves(model)):
                rec.bucket("composite:with-python-component")
        rec.bucket("composite:" + spelling)
    rec.set_shape(("composite", expr), True)


def run_noflag(case, rec):
    """kerneldll.ALLOW_SINGLE_PRECISION_DLLS = False (documented switch): a single-precision request is served by the
    64-bit library and must then be a double-precision model that agrees with the ordinary double build."""
    import subprocess, json, tempfile
    name = case["model"]
    prog = (
        "import json, numpy as np\n"
        "from sasmodels import core, kerneldll, direct_model\n"
        "kerneldll.ALLOW_SINGLE_PRECISION_DLLS = False\n"
        "q = [np.array([0.011, 0.043, 0.17])]\n"
        "m = core.load_model(%r, dtype=%r, platform='dll')\n"
        "I = direct_model.call_kernel(m.make_kernel(q), {})\n"
        "m8 = core.load_model(%r, dtype='double!', platform='dll')\n"
        "I8 = direct_model.call_kernel(m8.make_kernel(q), {})\n"
        "print('RTMOUT ' + json.dumps({'dtype': str(np.dtype(m.dtype)), 'dll': (getattr(m, 'dllpath', None) or m.P.dllpath).split('/')[-1], 'I': [float(x) for x in I],"
        " 'I8': [float(x) for x in I8], 'result_dtype': str(np.asarray(I).dtype)}))\n" % (name, case["spelling"], name))
    env = dict(os.environ, SAS_DLL_PATH=os.path.join(os.environ.get("RTM_SCRATCH", tempfile.gettempdir()), "noflag-dll"))
    r = subprocess.run([core.PY, "-c", prog], capture_output=True, text=True, timeout=600, env=env)
    out = None
    for line in r.stdout.splitlines():
        if line.startswith("RTMOUT "):
            out = json.loads(line[7:])
    rec.check("process_survives", r.returncode == 0 and out is not None,
              {"model": name, "spelling": case["spelling"], "switch": "ALLOW_SINGLE_PRECISION_DLLS=False", "exit": r.returncode,
               "stderr": r.stderr[-400:]})
    if out is not None:
        ok = core.close(np.array(out["I"]), np.array(out["I8"]), 1e-12, 0.0) and out["dtype"] == "float64" \
            and out["dll"].startswith("sas64_")
        rec.check("builds_and_agrees_with_double", ok,
                  None if ok else dict(out, model=name, spelling=case["spelling"], switch="ALLOW_SINGLE_PRECISION_DLLS=False"))
    rec.bucket("switch:single-precision-libraries-not-allowed")
    rec.set_shape(("noflag", name, case["spelling"]), True)


def run_shipped(case, rec):
    """A model built in the requested precision and shipped to another place (pickled, as fit workers receive it;
    copied) is still a model of that precision and returns the same values."""
    import subprocess, json, tempfile
    name, spelling = case["model"], case["spelling"]
    prog = (
        "import json, pickle, copy, numpy as np\n"
        "from sasmodels import core, direct_model\n"
        "q = [np.array([0.011, 0.043, 0.17])]\n"
        "m = core.load_model(%r, dtype=%r, platform='dll')\n"
        "I = direct_model.call_kernel(m.make_kernel(q), {})\n"
        "out = {'dtype': str(np.dtype(m.dtype)), 'I': [float(x) for x in I]}\n"
        "for how, m2 in (('pickle', pickle.loads(pickle.dumps(m))), ('deepcopy', copy.deepcopy(m))):\n"
        "    I2 = direct_model.call_kernel(m2.make_kernel(q), {})\n"
        "    out[how] = {'dtype': str(np.dtype(m2.dtype)) if getattr(m2, 'dtype', None) is not None else None,"
        " 'result_dtype': str(np.asarray(I2).dtype), 'I': [float(x) for x in I2]}\n"
        "import os\n"
        "m3 = core.load_model(%r, dtype=%r, platform='dll')\n"
        "os.remove(m3.dllpath)\n"          # the cache is cleaned between loading the model and its first use
        "try:\n"
        "    I3 = direct_model.call_kernel(m3.make_kernel(q), {})\n"
        "    out['cache_cleaned'] = {'dtype': str(np.dtype(m3.dtype)), 'I': [float(x) for x in I3]}\n"
        "except Exception as exc:\n"
        "    out['cache_cleaned'] = {'refused': repr(exc)[:200]}\n"
        "print('RTMOUT ' + json.dumps(out))\n" % (name, spelling, name, spelling))
    env = dict(os.environ, SAS_DLL_PATH=os.path.join(os.environ.get("RTM_SCRATCH", tempfile.gettempdir()), "shipped-dll-%d" % os.getpid()))
    r = subprocess.run([core.PY, "-c", prog], capture_output=True, text=True, timeout=600, env=env)
    out = None
    for line in r.stdout.splitlines():
        if line.startswith("RTMOUT "):
            out = json.loads(line[7:])
    rec.check("process_survives", r.returncode == 0 and out is not None,
              {"model": name, "spelling": spelling, "case": "model pickled / copied after building", "exit": r.returncode,
               "stderr": r.stderr[-400:]}, key="C15/shipped-model-loses-precision")
    if out is not None:
        for how in ("pickle", "deepcopy"):
            o = out[how]
            ok = o["I"] == out["I"] and o["dtype"] == out["dtype"]
            rec.check("shipped_model_keeps_precision", ok,
                      None if ok else {"model": name, "spelling": spelling, "how": how, "built": {"dtype": out["dtype"], "I": out["I"]},
                                       "shipped": o}, key="C15/shipped-model-loses-precision")
        cc = out.get("cache_cleaned") or {}
        okc = ("refused" in cc) or (cc.get("I") == out["I"] and cc.get("dtype") == out["dtype"])
        rec.check("shipped_model_keeps_precision", okc,
                  None if okc else {"model": name, "spelling": spelling, "how": "library file removed between load_model and first use",
                                    "built": {"dtype": out["dtype"], "I": out["I"]}, "after": cc}, key="C15/shipped-model-loses-precision")
        rec.bucket("shipped:cache-cleaned:" + ("refused" if "refused" in cc else "rebuilt"))
    rec.bucket("shipped:" + spelling)
    rec.set_shape(("shipped", name, spelling), True)


def run_together(case, rec):
    """The same model requested in two precisions by two processes at the same time against an empty cache (parallel
    workers of a comparison script): each gets a library built from its own converted source."""
    import subprocess, json, tempfile, shutil
    name = case["model"]
    prog = (
        "import json, sys, numpy as np\n"
        "from sasmodels import core, direct_model\n"
        "q = [np.array([0.011, 0.043, 0.17])]\n"
        "m = core.load_model(%r, dtype=sys.argv[1], platform='dll')\n"
        "I = direct_model.call_kernel(m.make_kernel(q), {})\n"
        "print('RTMOUT ' + json.dumps({'dtype': str(np.dtype(m.dtype)), 'I': [float(x) for x in I]}))\n" % name)
    work = tempfile.mkdtemp(prefix="c15-together-", dir=os.environ.get("RTM_SCRATCH"))
    try:
        ref = {}
        env0 = dict(os.environ, SAS_DLL_PATH=os.path.join(work, "ref-dll"), TMPDIR=work)
        for sp in ("double!", "single!", "quad!"):
            r = subprocess.run([core.PY, "-c", prog, sp], capture_output=True, text=True, timeout=600, env=env0)
            ref[sp] = [json.loads(l[7:]) for l in r.stdout.splitlines() if l.startswith("RTMOUT ")][0]
        for rnd, pair in enumerate((("double!", "single!"), ("quad!", "double!"), ("single!", "quad!"))):
            env = dict(os.environ, SAS_DLL_PATH=os.path.join(work, "dll-%d" % rnd), TMPDIR=work,
                       CC="%s %s" % (core.PY, os.path.join(os.path.dirname(os.path.abspath(__file__)), "_c15_cc.py")))
            procs = [subprocess.Popen([core.PY, "-c", prog, sp], stdout=subprocess.PIPE, stderr=subprocess.PIPE, text=True, env=env)
                     for sp in pair]
            outs = [p_.communicate(timeout=600) for p_ in procs]
            # and once more, one after the other, from the cache the simultaneous builds left behind
            later = [subprocess.run([core.PY, "-c", prog, sp], capture_output=True, text=True, timeout=600, env=env) for sp in pair]
            for sp, (so, se), lt in zip(pair, outs, later):
                for when, text, err in (("simultaneous first use", so, se), ("later, from the cache left behind", lt.stdout, lt.stderr)):
                    got = [json.loads(l[7:]) for l in text.splitlines() if l.startswith("RTMOUT ")]
                    ok = bool(got) and got[0]["dtype"] == ref[sp]["dtype"] and got[0]["I"] == ref[sp]["I"]
                    rec.check("builds_and_agrees_with_double", ok,
                              None if ok else {"model": name, "requested": sp, "other_process_requested": [x for x in pair if x != sp],
                                               "when": when, "got": got[:1], "same request alone": ref[sp], "stderr": err[-300:]},
                              key="C15/precisions-built-together")
        rec.bucket("two-precisions-built-at-the-same-time")
        rec.set_shape(("together", name), True)
    finally:
        shutil.rmtree(work, ignore_errors=True)


def run_system(case, rec):
    """The distribution path (core.precompile_dlls -> make_dll(system=True)): the C text handed to the compiler is the
    converted text, and the library evaluates like the ordinary build of that precision."""
    from sasmodels import core as sascore, direct_model, kerneldll, generate
    import tempfile, shutil
    name, d = case["model"], case["dtype"]
    i = sas.info(name)
    dt = np_dtype(d)
    source = generate.make_source(i)["dll"]
    work = tempfile.mkdtemp(prefix="c15sys-", dir=os.environ.get("RTM_SCRATCH"))
    old = kerneldll.SAS_DLL_PATH
    try:
        kerneldll.SAS_DLL_PATH = work
        seen_text = []
        orig_compile = kerneldll.compile_model

        def spy(source, output):              # observe the text the compiler is given
            seen_text.append(open(source).read())
            return orig_compile(source=source, output=output)
        kerneldll.compile_model = spy
        try:
            dll = kerneldll.make_dll(source, i, dtype=dt, system=True)
        finally:
            kerneldll.compile_model = orig_compile
        if not seen_text:
            rec.inconclusive("the system build did not call the compiler")
            return
        ctext = seen_text[-1]
        compare_streams(rec, source, d, {"model": name, "via": "make_dll(system=True)"})
        expected = generate.convert_type(source, dt)
        rec.check("only_documented_tokens_change", ctext == expected,
                  {"model": name, "dtype": d, "via": "text written for the system build differs from convert_type(source)",
                   "first_difference": next((k for k, (a, b) in enumerate(zip(ctext, expected)) if a != b), min(len(ctext), len(expected)))})
        model = kerneldll.load_dll(source, i, dtype=dt)
        pars = sas.base_pars(i, 5, style="default")
        s_ = sas.size_scale(i, pars)
        q = np.exp(np.linspace(np.log(0.05/s_), np.log(5.0/s_), 6))
        Ix = np.asarray(direct_model.call_kernel(model.make_kernel([q]), dict(pars)), float)
    finally:
        kerneldll.SAS_DLL_PATH = old
    m64 = sascore.build_model(i, dtype="double!", platform="dll")
    I64 = np.asarray(direct_model.call_kernel(m64.make_kernel([q]), dict(pars)), float)
    sc_ = float(np.max(np.abs(I64 - pars.get("background", 0.0))))
    tol = {"float32": (2e-3, 1e-5), "float64": (1e-13, 1e-14), "longdouble": (1e-4, 1e-6)}[d]
    ok = core.close(Ix, I64, tol[0], tol[1]*sc_ + 1e-300)
    rec.check("builds_and_agrees_with_double", ok,
              None if ok else {"model": name, "dtype": d, "via": "system build", "double": I64, "other": Ix,
                               "max_rel_err": core.maxrel(Ix, I64, 1e-12*sc_)})
    rec.bucket("system-build:" + d)
    rec.set_shape((name, d, "system"), True)
    shutil.rmtree(work, ignore_errors=True)


def run_case(case, rec):
    if case["kind"] == "system":
        return run_system(case, rec)
    if case["kind"] == "noflag":
        return run_noflag(case, rec)
    if case["kind"] == "shipped":
        return run_shipped(case, rec)
    if case["kind"] == "together":
        return run_together(case, rec)
    {"src": run_src, "frag": run_frag, "build": run_build, "spell": run_spell, "composite": run_composite}[case["kind"]](case, rec)


def classify(case, v):
    return v.get("key")


LEVEL_TEXT = ("The real convert_type output is aligned token by token (harness C tokenizer, comments stripped) with the "
              "documented transformation of the input for all compiled models x 3 precisions and for thousands of "
              "generated fragments of tricky tokens; float32/long-double kernels are built and compared with the "
              "double build; all request spellings are resolved and built.  Exploration over generated programs.")
LEVEL_NOTE = "Trusts the harness tokenizer (C preprocessing-number rules) and the interpretation choices listed in assumptions."
TECHNIQUE = "token-stream alignment monitor (independent C tokenizer) over generated programs + differential build check"
