"""
C17 - the compiled-model cache always reflects the current sources.

Histories of edits and loads on a probe plugin whose I(q) decodes to the tuple
of versions that were actually read: the constant in the definition file, the
value returned by an included C file, a macro in the (scratch copy of the)
kernel template, FLOAT_SIZE of the library actually loaded, and a parameter
default from the Python-side table.
"""
from __future__ import annotations

import json
import os
import shutil
import subprocess
import tempfile
import time

import numpy as np

from rtm import core

PROP = "C17"
LEVEL = "exploration"
RULE = ("Generated histories (length <= 12) over {edit constant in the definition file, edit parameter default, edit the "
        "included C file, edit the kernel template (scratch package copy), change requested precision, revert any file "
        "to an earlier text, load+evaluate in the long-running process, load+evaluate in a fresh process} against one "
        "shared cache directory; every edit advances the file's mtime by 2 s (os.utime).  Distinct: hash of the operation "
        "sequence.  Non-trivial: the history contains at least two edits and one revert or precision change.")
ASSUMPTIONS = ["mtime is advanced by whole seconds through os.utime (logical clock; CPython's .pyc check has 1 s granularity)",
               "CRC32 collisions between different generated sources are not sampled"]
REQUIRED_MONITORS = ["evaluates_current_sources", "source_to_library_injective", "cache_listing_is_image"]
REQUIRED_BUCKETS = {"quick": ["op:edit_py_const", "op:edit_py_default", "op:edit_inc", "op:edit_template", "op:dtype",
                              "op:revert", "op:edit_source_list", "op:load_with_other_integration_size", "loader:core", "loader:sasview", "loader:composite", "loader:nested", "loader:modelpath", "cache-directory:deep-path", "include-names:same-as-library-files", "op:single-request-with-single-libraries-switched-off", "eval:while-definition-broken", "eval:same_process", "eval:fresh_process", "revert_then_same_process",
                              "default_only_edit_then_same_process", "clock:past", "clock:future", "clock:near-now", "clock:subsecond"]}
REQUIRED_BUCKETS["thorough"] = REQUIRED_BUCKETS["quick"]
HERE = os.path.dirname(os.path.abspath(__file__))
FSIZE = {"single": 4.0, "double": 8.0, "quad": 16.0}


def gen_cases(tier, seed):
    n = 25 if tier == "quick" else 600
    return [{"id": "hist/%04d" % h, "h": h, "seed": seed, "group": "h%d" % h, "cost": 1.0} for h in range(n)]


INC_NAMES = ("m_inc.c", "m_inc2.c")


def py_text(K, D, S=1, inc_names=INC_NAMES):
    return ('r"""cache probe"""\nimport os as _os\nif _os.environ.get("RTM17_INTERRUPT") == "1":\n    raise KeyboardInterrupt()\n'
            'from numpy import inf\nname = "rtm_cache_probe"\ntitle = "probe"\ndescription = "probe"\n'
            'category = "shape:sphere"\nparameters = [["p_default", "", %d, [-inf, inf], "", "default carries a version"]]\n'
            'source = ["lib/gauss76.c", "%s"]\nIq = """\n    if (q < 0.15) return %d.0;\n    if (q < 0.25) return inc_version();\n'
            '    if (q < 0.35) return RTM_TEMPLATE_VERSION;\n    if (q < 0.45) return FLOAT_SIZE;\n    if (q < 0.55) return p_default;\n'
            '    return GAUSS_N;\n"""\n'
            % (D, inc_names[0] if S == 1 else inc_names[1], K))


def inc_text(V):
    return "static double inc_version(void) { return %d.0; }\n" % V


class World:
    def __init__(self, root, epoch="past", deep_cache=False, colliding_names=False):
        self.root = root
        # the plugin's own include files may carry the names of files of the model library (a private, edited copy of
        # lib/sas_gamma.c next to the plugin): the plugin's directory is searched first
        self.inc_names = ("lib/sas_gamma.c", "lib/sas_erf.c") if colliding_names else INC_NAMES
        self.pkg = os.path.join(root, "pkg")
        subprocess.run(["rsync", "-a", "--exclude", "__pycache__", os.path.join(core.REPO, "sasmodels"), self.pkg + "/"],
                       check=True)
        self.plug = os.path.join(root, "plug")
        os.makedirs(self.plug)
        self.cache = os.path.join(root, "cache")
        if deep_cache:
            # a cache directory deep down in the file system (library paths of 300+ characters)
            while len(self.cache) < 300:
                self.cache = os.path.join(self.cache, "a-rather-long-directory-name-as-shared-project-areas-have-them")
        if colliding_names:
            os.makedirs(os.path.join(self.plug, "lib"))
        self.files = {"py": os.path.join(self.plug, "m.py"), "inc": os.path.join(self.plug, self.inc_names[0]),
                      "inc2": os.path.join(self.plug, self.inc_names[1]),
                      "tpl": os.path.join(self.pkg, "sasmodels", "kernel_header.c")}
        self.tpl_base = open(self.files["tpl"]).read()
        # one logical clock for all files: wall-clock time is global, so a later edit of any file carries
        # a later mtime than every earlier edit (per-file clocks would manufacture histories that a real
        # file system cannot produce without copying old time stamps)
        # The clock starts in the past, just before the system's "now" (so that later edits cross it), or ahead
        # of it (files stamped by a machine whose clock runs ahead, archive time stamps): the statement is about
        # content and time-stamp order, not about the relation to this machine's wall clock.
        self.now = {"past": 1_700_000_000, "near-now": int(time.time()) - 7, "future": int(time.time()) + 7200,
                    "subsecond": 1_700_000_000}[epoch]
        # quick successive saves: several edits inside one wall-clock second (file systems keep ns time stamps).
        # CPython's own .pyc validation has 1 s granularity, so byte-code caching is switched off for these
        # histories; what is observed is sasmodels' reload decision only.
        self.tick = 0.3 if epoch == "subsecond" else 2
        self.epoch = epoch
        # S: which of the two include files the definition lists; V2: version of the second one (offset 1000)
        self.state = {"K": 1, "D": 1, "V": 1, "T": 1, "S": 1, "V2": 1001}
        self.history = {"py": [], "inc": [], "inc2": [], "tpl": []}
        self.broken = False
        self.write("py")
        self.write("inc")
        self.write("inc2")
        combo = os.path.join(self.plug, "combo.py")
        with open(combo, "w") as f:
            f.write('from sasmodels.core import load_model_info\nfrom sasmodels.sasview_model import make_model_from_info\n'
                    'model_info = load_model_info(%r)\nmodel_info.name = "combo"\nModel = make_model_from_info(model_info)\n'
                    % (self.files["py"] + "+sphere"))
        os.utime(combo, (self.now, self.now))
        self.write("tpl")
        self.server = None

    def text(self, which):
        s = self.state
        return {"py": py_text(s["K"], s["D"], s["S"], self.inc_names), "inc": inc_text(s["V"]), "inc2": inc_text(s["V2"]),
                "tpl": self.tpl_base + "\n#define RTM_TEMPLATE_VERSION %d\n" % s["T"]}[which]

    def write(self, which, snapshot=None, broken=False):
        if snapshot is not None:
            self.state.update(snapshot)
        with open(self.files[which], "w") as f:
            f.write(self.text(which) + ("\ndef broken(:\n" if broken else ""))
        if which == "py":
            self.broken = broken
        self.now += self.tick
        os.utime(self.files[which], (self.now, self.now))
        keys = {"py": ("K", "D", "S"), "inc": ("V",), "inc2": ("V2",), "tpl": ("T",)}[which]
        self.history[which].append({k: self.state[k] for k in keys})

    def make_twin(self):
        """A second copy of the plugin directory as it is now (same file names, kept as it is from now on): another
        file with the same name as the plugin, used beside it in one model expression."""
        if getattr(self, "twin_state", None) is None:
            shutil.copytree(self.plug, os.path.join(self.root, "twin"), copy_function=shutil.copy2)
            self.twin_state = dict(self.state)
        return self.twin_state

    def env(self):
        e = dict(os.environ)
        e.update({"SAS_DLL_PATH": self.cache, "PYTHONPATH": self.pkg, "SAS_OPENCL": "none", "TMPDIR": self.root,
                  "PYTHONDONTWRITEBYTECODE": "1" if self.epoch == "subsecond" else "0",
                  "PYTHONPYCACHEPREFIX": os.path.join(self.root, "pyc")})
        if self.epoch == "subsecond":
            e["PYTHONDONTWRITEBYTECODE"] = "1"
        return e

    def start_server(self):
        self.server = subprocess.Popen([core.PY, os.path.join(HERE, "_c17_proc.py"), self.files["py"]], env=self.env(),
                                       stdin=subprocess.PIPE, stdout=subprocess.PIPE, stderr=subprocess.PIPE, text=True,
                                       cwd=self.root)

    def ask(self, proc, dtype, via="core", ngauss=None, noflag=False, interrupt=False):
        proc.stdin.write(json.dumps({"op": "eval", "dtype": dtype, "via": via, "ngauss": ngauss, "noflag": noflag,
                                     "interrupt": interrupt}) + "\n")
        proc.stdin.flush()
        while True:
            line = proc.stdout.readline()
            if not line:
                return {"error": "process ended: " + proc.stderr.read()[-600:]}
            if line.startswith("RTM17 "):
                return json.loads(line[6:])

    def eval_same(self, dtype, via="core", ngauss=None, noflag=False, interrupt=False):
        if self.server is None or self.server.poll() is not None:
            self.start_server()
        return self.ask(self.server, dtype, via, ngauss, noflag, interrupt)

    def eval_fresh(self, dtype, via="core", ngauss=None, noflag=False):
        p = subprocess.Popen([core.PY, os.path.join(HERE, "_c17_proc.py"), self.files["py"]], env=self.env(),
                             stdin=subprocess.PIPE, stdout=subprocess.PIPE, stderr=subprocess.PIPE, text=True, cwd=self.root)
        r = self.ask(p, dtype, via, ngauss, noflag)
        try:
            p.stdin.write('{"op": "quit"}\n')
            p.stdin.flush()
            p.wait(timeout=20)
        except Exception:
            p.kill()
        return r

    def close(self):
        if self.server is not None and self.server.poll() is None:
            try:
                self.server.stdin.write('{"op": "quit"}\n')
                self.server.stdin.flush()
                self.server.wait(timeout=20)
            except Exception:
                self.server.kill()


def gen_history(rng, h):
    ops = [["eval", "same"]]
    n = int(rng.integers(6, 13))
    kinds = ["edit_py_const", "edit_py_default", "edit_inc", "edit_template", "dtype", "revert", "edit_source_list",
             "edit_inc", "other_size"]
    for _ in range(n):
        k = kinds[int(rng.integers(len(kinds)))]
        if k == "other_size":
            # a load that requests another Gauss rule size, then an ordinary load
            ops.append(["eval_size", "same"])
            ops.append(["eval", "same"])
            continue
        ops.append([k, None])
        ops.append(["eval", "same" if rng.random() < 0.6 else "fresh"])
        if rng.random() < 0.3:
            ops.append(["eval", "fresh" if ops[-1][1] == "same" else "same"])
    # constructive tails
    # the list of included C files changes and changes back; a C edit after a definition-file edit that kept the list
    # an intermediate edit that does not parse (every loader refuses it), then the corrected file
    ops += [["eval", "same"], ["eval", "same"], ["eval", "same"], ["break_py", None], ["eval", "same"], ["eval", "same"],
            ["eval", "same"], ["edit_py_const", None], ["eval", "same"], ["eval", "same"], ["eval", "same"], ["eval", "same"],
            ["edit_inc", None], ["eval", "same"], ["eval", "same"], ["eval", "same"]]
    ops += [["eval_size", "same"], ["eval", "same"], ["eval_size", "same"], ["edit_py_const", None], ["eval", "same"],
            ["edit_source_list", None], ["eval", "same"], ["edit_inc", None], ["eval", "same"], ["edit_source_list", None],
            ["eval", "same"], ["edit_py_const", None], ["eval", "same"], ["edit_inc", None], ["eval", "same"], ["eval", "fresh"]]
    # a reload that the user interrupts (Ctrl-C while the edited definition file is being executed), then further edits
    if h % 2 == 1:
        ops += [["eval", "same"], ["edit_inc", None], ["interrupted_load", "same"], ["eval", "same"], ["edit_inc", None],
                ["eval", "same"], ["edit_py_const", None], ["interrupted_load", "same"], ["edit_inc", None], ["eval", "same"],
                ["eval", "same"]]
    # the same source state asked for in single precision with the single-precision switch off and on, in both orders
    if h % 3 == 0:
        ops += [["dtype", "single"], ["eval_noflag", "fresh"], ["eval", "fresh"], ["edit_py_const", None], ["eval", "fresh"],
                ["eval_noflag", "fresh"], ["eval", "same"], ["dtype", "double"], ["eval", "same"]]
    if h % 2 == 0:
        ops += [["edit_inc", None], ["eval", "same"], ["edit_py_default", None], ["eval", "same"], ["revert", "inc"],
                ["eval", "same"], ["eval", "fresh"]]
    else:
        ops += [["dtype", "double"], ["eval", "same"], ["dtype", "quad"], ["eval", "same"], ["dtype", "single"], ["eval", "fresh"],
                ["edit_template", None], ["eval", "same"], ["revert", "tpl"], ["eval", "same"]]
    return ops


def run_case(case, rec):
    rng = core.rng_for(case["seed"], PROP, case["h"])
    root = tempfile.mkdtemp(prefix="c17-", dir=os.environ.get("RTM_SCRATCH"))
    epoch = ["past", "future", "subsecond", "near-now", "past"][case["h"] % 5]
    rec.bucket("clock:" + epoch)
    deep, collide = case["h"] % 5 == 3, case["h"] % 4 == 2
    if deep:
        rec.bucket("cache-directory:deep-path")
    if collide:
        rec.bucket("include-names:same-as-library-files")
    w = World(root, epoch, deep_cache=deep, colliding_names=collide)
    dtype = "double"
    ops = gen_history(rng, case["h"])
    keymap = {}
    edits = reverts = 0
    last_edit = None
    try:
        for step, (op, arg) in enumerate(ops):
            if op == "edit_py_const":
                w.state["K"] += int(rng.integers(1, 4))
                w.write("py")
                edits += 1
                last_edit = op
            elif op == "edit_py_default":
                w.state["D"] += int(rng.integers(1, 4))
                w.write("py")
                edits += 1
                last_edit = op
            elif op == "edit_inc":
                # the include file currently listed by the definition
                if w.state["S"] == 1:
                    w.state["V"] += int(rng.integers(1, 4))
                    w.write("inc")
                else:
                    w.state["V2"] += int(rng.integers(1, 4))
                    w.write("inc2")
                edits += 1
                last_edit = op
            elif op == "break_py":
                w.state["K"] += 1
                w.write("py", broken=True)
                edits += 1
                last_edit = op
            elif op == "edit_source_list":
                w.state["S"] = 3 - w.state["S"]
                w.write("py")
                edits += 1
                last_edit = op
            elif op == "edit_template":
                w.state["T"] += int(rng.integers(1, 4))
                w.write("tpl")
                edits += 1
                last_edit = op
            elif op == "dtype":
                dtype = arg or ["single", "double", "quad"][int(rng.integers(3))]
                last_edit = op
            elif op == "revert":
                which = arg or ["py", "inc", "tpl"][int(rng.integers(3))]
                past = w.history[which][:-1]
                if past:
                    w.write(which, snapshot=past[int(rng.integers(len(past)))])
                    reverts += 1
                    last_edit = "revert"
                op = "revert"
            if op == "interrupted_load":
                via_i = ["sasview", "core", "nested"][(step + case["h"]) % 3]
                r_i = w.eval_same(dtype, via_i, None, False, interrupt=True)
                rec.bucket("op:interrupted_load", "interrupted:" + ("yes" if r_i.get("interrupted") else "no-reload-needed"))
                continue
            if op not in ("eval", "eval_size", "eval_noflag"):
                rec.bucket("op:" + op)
                continue
            ngauss = None
            via = "sasview" if (step + case["h"]) % 3 == 0 else "composite" if (step + case["h"]) % 7 == 1 else \
                "nested" if (step + case["h"]) % 7 in (2, 5) else "modelpath" if (step + case["h"]) % 7 == 4 else "core"
            if via == "core" and (step + case["h"]) % 7 == 6 and not w.broken:
                via = "twin"
                w.make_twin()
            if op == "eval_size":
                ngauss, via = [20, 150][step % 2], "core"
                rec.bucket("op:load_with_other_integration_size")
            noflag = (op == "eval_noflag")
            dtype_used = dtype
            if noflag:
                # a single-precision request while single-precision libraries are switched off (the documented switch
                # kerneldll.ALLOW_SINGLE_PRECISION_DLLS = False): served in double precision, against the same cache
                via, dtype_used = "core", "single"
                rec.bucket("op:single-request-with-single-libraries-switched-off")
            r = w.eval_same(dtype_used, via, ngauss, noflag) if arg == "same" else w.eval_fresh(dtype_used, via, ngauss, noflag)
            rec.bucket("eval:%s_process" % arg, "loader:" + via)
            if arg == "same" and last_edit == "revert":
                rec.bucket("revert_then_same_process")
            if arg == "same" and last_edit == "edit_py_default":
                rec.bucket("default_only_edit_then_same_process")
            s = w.state
            expected = [float(s["K"]), float(s["V"] if s["S"] == 1 else s["V2"]), float(s["T"]),
                        (8.0 if noflag else FSIZE[dtype_used]) if via in ("core", "composite", "nested", "modelpath", "twin") else 8.0,
                        float(s["D"]), float(ngauss or 76)]
            ctx = {"step": step, "history": ops[:step + 1][-10:], "dtype": dtype, "process": arg,
                   "expected_versions": dict(zip(["py_const", "include", "template", "float_size", "py_default", "gauss_n"], expected))}
            if w.broken:
                # the definition file on disk does not parse: the load is refused, no value of an older version
                rec.check("broken_definition_refused", "error" in r, dict(ctx, loader=via, returned=r.get("values")))
                rec.bucket("eval:while-definition-broken")
                continue
            if "error" in r:
                rec.check("evaluates_current_sources", False, dict(ctx, error=r["error"], tb=r.get("tb")))
                continue
            got = r["values"]
            ok = (got == expected)
            key = None
            if not ok and via == "sasview" and arg == "same" and len(got) == 6 and \
                    [g for j, g in enumerate(got) if j != 2] == [e for j, e in enumerate(expected) if j != 2] \
                    and got[2] in {float(hh["T"]) for hh in w.history["tpl"][:-1]}:
                # listed finding: only the template version is stale, only through the SasView loader, only in the
                # process that had the model class already
                key = "C17/sasview-loader-keeps-compiled-model-across-template-edits"
            rec.check("evaluates_current_sources", ok,
                      None if ok else dict(ctx, loader=via, decoded=dict(zip(["py_const", "include", "template", "float_size", "py_default", "gauss_n"], got))),
                      key=key)
            if via == "twin":
                ts = w.twin_state
                exp_t = [float(ts["K"]), float(ts["V"] if ts["S"] == 1 else ts["V2"]), float(s["T"]), FSIZE[dtype_used], float(ts["D"]), 76.0]
                got_t = r.get("values_twin")
                rec.check("evaluates_current_sources", got_t == exp_t,
                          None if got_t == exp_t else dict(ctx, loader="a copy of the plugin under the same file name in another "
                                                           "directory, as the second term of plugin+copy", expected_copy_versions=exp_t,
                                                           decoded_copy=got_t), key="C17/same-file-name-in-two-directories")
                rec.bucket("twin:differs" if exp_t != expected else "twin:identical")
            if r.get("package") and not r["package"].startswith(w.pkg):
                rec.inconclusive("participant imported sasmodels from %s" % r["package"])
            for sha, size, path in r["make_dll_log"]:
                prev = keymap.setdefault(path, (sha, size))
                rec.check("source_to_library_injective", prev == (sha, size),
                          dict(ctx, library=path, first=prev, now=(sha, size)))
        listing = sorted(f for f in os.listdir(w.cache) if f.endswith(".so")) if os.path.isdir(w.cache) else []
        rec.check("cache_listing_is_image", set(listing) == set(keymap),
                  {"listing": listing, "image": sorted(keymap)})
        rec.set_shape(ops, nontrivial=(edits >= 2 and (reverts >= 1 or any(o == "dtype" for o, _ in ops))))
        rec.count("evaluations", sum(1 for o, _ in ops if o == "eval"))
        rec.count("libraries", len(keymap))
        if case["h"] < 2:
            rec.observe(history=ops[:16], libraries=sorted(keymap))
    finally:
        w.close()
        shutil.rmtree(root, ignore_errors=True)


LEVEL_TEXT = ("History checking with unambiguous values: every evaluation of the probe plugin decodes to the versions of the "
              "definition file, the included C file, the kernel template, the precision of the loaded library and the "
              "Python-side parameter table that were actually read; generated edit/revert/precision/load histories in a "
              "long-running and in fresh processes on one cache; the (source, precision) -> library map is logged on the "
              "real make_dll and must be injective.  Exploration over sampled histories.")
LEVEL_NOTE = "Works on an rsync copy of the package (templates are edited); mtime advanced with os.utime; CRC32 collisions not sampled."
TECHNIQUE = "history checker with version-encoding probe values + wrapper log on make_dll (injectivity) across processes"
