"""
C20 - legacy parameter sets convert to valid parameter sets of the current model.

The oracle is recomputed from CONVERSION_TABLE itself and from the *current*
parameter tables; nothing of convert.py is reused.  Every value written into a
legacy set is unique, so each returned value identifies the old key it came from.
"""
from __future__ import annotations

import copy

import numpy as np

from rtm import core

PROP = "C20"
LEVEL = "exploration"
RULE = ("Every entry of every version table of CONVERSION_TABLE x generated legacy parameter sets (all old names; "
        "random subsets; each with random subsets of .width/.npts/.nsigmas/.type/.lower/.upper attributes; "
        "magnetic M0:/mtheta:/mphi:/up: keys as the old release spelt them) x model_version tuples x use_underscore. "
        "Every value is unique so the carry is decoded exactly.  Distinct: hash of (entry, version, sorted key set, "
        "use_underscore).  Non-trivial: the set contains at least one table-listed old name.")
ASSUMPTIONS = [
    "the expected mapping is read from CONVERSION_TABLE composed over versions; vector parameters map base+k -> base+k",
    "magnetic magnitudes (unit 1e-6/Ang^2 in the current table) count as SLDs for the 1e6 rescaling; for fit limits of SLDs both v and v*1e6 are accepted (the statement is silent)",
    "hand-converted models are checked for completion, key validity and the untouched parameters only",
]
REQUIRED_MONITORS = ["completes", "name_is_current_model", "keys_exist", "value_carried", "scale_background_defaulted"]
REQUIRED_BUCKETS = {"quick": ["table:(3, 1, 2)", "table:(5, 0, 4)", "set:all", "set:subset", "attrs:yes",
                              "magnetic:yes", "underscore:yes", "underscore:no", "hand:yes", "hand:no",
                              "saved-zero-scale-or-background", "after-another-conversion",
                              "after-conversion-of-same-model-name"]}
REQUIRED_BUCKETS["thorough"] = REQUIRED_BUCKETS["quick"]

ATTRS = [".width", ".npts", ".nsigmas", ".type", ".lower", ".upper"]
UNDERSCORE = {".width": "_pd", ".npts": "_pd_n", ".nsigmas": "_pd_nsigma", ".type": "_pd_type"}
HAND = {"core_shell_ellipsoid:1": ["equat_core", "equat_shell", "polar_core", "polar_shell"],
        "hollow_cylinder": ["radius"],
        "multilayer_vesicle": ["scale", "volfraction"],
        "polymer_micelle": ["ndensity"],
        "rpa": ["La", "Lb", "Lc", "Ld", "L1", "L2", "L3", "L4"],
        "spherical_sld": None,   # everything (func_inter / n_shells rewriting)
        "teubner_strey": None,
        "core_shell_parallelepiped": ["rimA", "rimB", "rimC"]}
UNIT_ONLY = ("polymer_micelle", "rpa")
VERSIONS = [(3, 1, 2), (4, 0, 0), (4, 1, 2), (4, 2, 0), (5, 0, 0), (5, 0, 4), (5, 1, 0)]


def table():
    from sasmodels.conversion_table import CONVERSION_TABLE
    return CONVERSION_TABLE


def current_names(model):
    from sasmodels.core import load_model_info
    info = load_model_info(model)
    return info, [p.name for p in info.parameters.call_parameters]


def expand_mapping(info, mapping):
    """old -> new over the entry, with vector parameters expanded base+k -> base+k."""
    out = {}
    vec = {p.id: p.length for p in info.parameters.kernel_parameters if p.length > 1}
    for new, old in mapping.items():
        if old is None:
            continue
        if new in vec:
            for k in range(1, vec[new] + 1):
                if new + str(k) not in mapping:
                    out[old + str(k)] = new + str(k)
        else:
            out[old] = new
    return out


def magnetic_new(name):
    """M0:sld -> sld_M0 etc. (the current spelling of the magnetic parameters)."""
    for pre, suf in (("M0:", "_M0"), ("mtheta:", "_mtheta"), ("mphi:", "_mphi")):
        if name.startswith(pre):
            return name[len(pre):] + suf
    if name.startswith("up:"):
        # up:angle is documented to become up_phi (with up_theta = 90)
        return "up_phi" if name == "up:angle" else "up_" + name[3:]
    return name


def gen_cases(tier, seed):
    nsets = 40 if tier == "quick" else 300
    cases = []
    for ver, tab in sorted(table().items()):
        for new in sorted(tab):
            cases.append({"id": "%s/%s" % ("%d.%d.%d" % ver, new), "version": list(ver), "entry": new,
                          "nsets": nsets, "seed": seed, "group": new, "cost": nsets/8.0})
    # conversions are independent of what was converted before in the same process: every entry once more after
    # a conversion of another entry, chosen to share its model name (core_shell_ellipsoid / core_shell_ellipsoid:1),
    # its table or nothing with it
    flat = [(ver, new) for ver, tab in sorted(table().items()) for new in sorted(tab)]
    for j, (ver, new) in enumerate(flat):
        same = [(v2, n2) for v2, n2 in flat if n2.split(":")[0] == new.split(":")[0] and (v2, n2) != (ver, new)]
        other = same[0] if same else flat[(j*7 + 3 + seed) % len(flat)]
        if other == (ver, new):
            continue
        if tier == "quick" and not same and j % 6:
            continue
        cases.append({"id": "after/%s/%s" % ("%d.%d.%d" % ver, new), "version": list(ver), "entry": new,
                      "nsets": max(4, nsets//4), "seed": seed, "group": "seq-" + new, "cost": 1.0,
                      "prelude": [list(other[0]), other[1]]})
    return cases


def core_info_for_revert():
    from sasmodels import core as sascore
    return sascore.load_model_info("sphere")


def run_case(case, rec):
    from sasmodels.convert import convert_model
    ver = tuple(case["version"])
    tab = table()
    entry = tab[ver][case["entry"]]
    oldname, mapping = entry[0], entry[1]
    target = case["entry"]
    rng = core.rng_for(case["seed"], PROP, "%s/%s" % (ver, target))
    if case.get("prelude"):
        # an earlier conversion in this process (its own outcome is judged by its own case)
        pver, pnew = tuple(case["prelude"][0]), case["prelude"][1]
        pentry = tab[pver][pnew]
        pold = {o: 1.5 for o in pentry[1].values() if isinstance(o, str)}
        try:
            convert_model(pentry[0], pold, use_underscore=False, model_version=pver)
        except Exception:
            pass
        # ... and a conversion in the other direction (current -> old names), which shares tables with this one
        try:
            from sasmodels.convert import revert_pars
            revert_pars(core_info_for_revert(), {"radius": 40.0, "radius.width": 0.1})
        except Exception:
            pass
        rec.bucket("after-another-conversion", "after-conversion-of-same-model-name"
                   if pnew.split(":")[0] == target.split(":")[0] else "after-another-conversion")
    # compose with later tables
    final_model = target.split(":")[0]
    info1, _ = current_names(final_model)
    old2new = expand_mapping(info1, mapping)
    later = [v for v in sorted(tab) if v > ver and final_model in tab[v]]
    for v in later:
        m2 = {o: n for n, o in tab[v][final_model][1].items() if o is not None}
        dropped = {n for n, o in tab[v][final_model][1].items() if o is None}
        old2new = {o: m2.get(n, n) for o, n in old2new.items()}
    info, names = current_names(final_model)
    nameset = set(names)
    sld_names = {p.name for p in info.parameters.call_parameters if p.type == "sld"}
    # parameters carrying the rescaled SLD unit: nuclear SLDs and their magnetic magnitudes
    sld_units = {p.name for p in info.parameters.call_parameters
                 if p.type == "sld" or (p.name.endswith("_M0") and p.units == "1e-6/Ang^2")}
    control = [p.id for p in info.parameters.kernel_parameters if p.is_control]
    control_old = {mapping.get(c) for c in control if mapping.get(c)}
    table_new = {magnetic_new(n) for n in old2new.values()}
    kctx = {"control": set(control), "control_old": control_old, "table_new": table_new, "nameset": nameset}
    hand = HAND.get(target, []) if target in HAND else []
    is_hand = target in HAND
    rec.bucket("table:%s" % (ver,), "hand:yes" if is_hand else "hand:no")
    old_keys = sorted(old2new)
    mag_old = [o for o in old_keys if old2new[o].split(":")[0] in ("M0", "mtheta", "mphi", "up")]
    plain_old = [o for o in old_keys if o not in mag_old]
    versions = [ver] + ([v for v in VERSIONS if v <= ver] if ver > (3, 1, 2) else [(3, 1, 2), (3, 0, 0), (3, 1, 0)])

    for s in range(case["nsets"]):
        kind = "all" if s % 3 == 0 else "subset"
        if kind == "all":
            chosen = list(plain_old)
        else:
            k = int(rng.integers(0, len(plain_old) + 1))
            chosen = sorted(rng.choice(plain_old, size=k, replace=False).tolist()) if k else []
        use_mag = bool(mag_old) and (s % 2 == 0)
        if use_mag:
            km = int(rng.integers(1, len(mag_old) + 1))
            chosen += sorted(rng.choice(mag_old, size=km, replace=False).tolist())
        with_attrs = (s % 4) in (1, 2)
        use_underscore = bool(s % 2)
        model_version = versions[s % len(versions)]
        pars, counter = {}, [0]

        def fresh():
            counter[0] += 1
            return 1.0 + counter[0]*0.0078125    # unique, exactly representable
        for o in chosen:
            pars[o] = fresh()
            if with_attrs and o not in mag_old:
                for a in ATTRS:
                    if rng.random() < 0.5:
                        pars[o + a] = ("gaussian" if a == ".type" else
                                       int(10 + counter[0]) if a == ".npts" else fresh())
        # scale and background, when saved, sometimes exactly zero (a legitimate saved value, not "missing")
        if rng.random() < 0.4:
            pars["scale"] = fresh() if rng.random() < 0.5 else 0.0
        if rng.random() < 0.4:
            pars["background"] = fresh() if rng.random() < 0.5 else 0.0
        original = copy.deepcopy(pars)
        rec.bucket("set:" + kind, "attrs:yes" if with_attrs else "attrs:no",
                   "magnetic:yes" if use_mag else "magnetic:no",
                   "underscore:yes" if use_underscore else "underscore:no")
        rec.set_shape((target, ver, model_version, sorted(pars), use_underscore),
                      nontrivial=bool(chosen))
        ctx = {"old_model": oldname, "entry": target, "table": list(ver), "model_version": list(model_version),
               "use_underscore": use_underscore, "pars": original}
        # which hand-conversion inputs are missing (documented inputs of the hand formulas)
        try:
            newname, newpars = convert_model(oldname, dict(pars), use_underscore=use_underscore,
                                             model_version=model_version)
        except Exception as exc:
            import traceback
            tb = traceback.extract_tb(exc.__traceback__)
            where = "%s:%s" % (tb[-1].name, type(exc).__name__)
            rec.check("completes", False, dict(ctx, exception=repr(exc), where=where),
                      key=_key_exception(target, where, pars))
            continue
        rec.check("completes", True)
        if s == 0:
            rec.observe(old_model=oldname, legacy=original, returned_name=newname, returned=newpars)
        # --- name
        try:
            from sasmodels.core import load_model_info
            load_model_info(newname)
            ok = (newname == final_model)
        except Exception:
            ok = False
        rec.check("name_is_current_model", ok, dict(ctx, returned_name=newname, expected=final_model),
                  key="C20/name/%s" % newname)
        # --- keys exist
        bad = []
        for k in newpars:
            base = k
            if use_underscore:
                for suf in ("_pd_nsigma", "_pd_type", "_pd_n", "_pd"):
                    if base.endswith(suf) and base[:-len(suf)] in nameset:
                        base = base[:-len(suf)]
                        break
            if use_underscore and any(base.endswith(dot) for dot in UNDERSCORE):
                # the caller asked for the name_pd* spelling: a dotted dispersity attribute is not a key of that scheme
                bad.append(k)
                continue
            if "." in base:
                base = base.split(".")[0]
            if base not in nameset:
                bad.append(k)
        for k in bad:
            rec.check("keys_exist", False, dict(ctx, bad_key=k, returned=sorted(newpars)[:40]),
                      key=_key_badkey(target, k, kctx))
        if not bad:
            rec.check("keys_exist", True)
        # --- values carried
        for o in chosen:
            if is_hand and (hand is None or any(o == h or o.startswith(h + ".") for h in hand)
                            or (target != "hollow_cylinder" and any(o.startswith(h) for h in hand))):
                # a hand conversion that only changes the unit of the value (number density, scattering lengths):
                # the dispersity attributes are pure numbers and a distribution name, and still have to arrive as given
                n = magnetic_new(old2new[o])
                if target in UNIT_ONLY and n in nameset:
                    for a in (".width", ".npts", ".nsigmas", ".type"):
                        if o + a in original:
                            nk = n + (UNDERSCORE[a] if use_underscore else a)
                            rec.bucket("hand:unit-change:attribute")
                            rec.check("value_carried", nk in newpars and newpars[nk] == original[o + a],
                                      dict(ctx, old_key=o + a, expected_key=nk, value=original[o + a],
                                           got=newpars.get(nk)),
                                      key="C20/carry-unit-change-attribute/%s/%s" % (target, a))
                continue
            n = magnetic_new(old2new[o])
            if n not in nameset:
                # the table names a parameter the current model lacks: reported by keys_exist
                rec.count("carry_skipped_target_not_in_model")
                continue
            keys = [(o, n)]
            for a in ATTRS:
                if o + a in original:
                    keys.append((o + a, n + (UNDERSCORE.get(a, a) if use_underscore else a)))
            for ok_, nk in keys:
                v = original[ok_]
                if nk not in newpars:
                    rec.check("value_carried", False, dict(ctx, old_key=ok_, expected_key=nk, missing=True,
                                                           returned=sorted(newpars)[:40]),
                              key=_key_carry(target, ok_, nk, n, kctx))
                    continue
                got = newpars[nk]
                accept = [v]
                if isinstance(v, float) and ver == (3, 1, 2) and not info.structure_factor:
                    if nk == n and n in sld_units:
                        # the value itself: current unit is 1e-6/Ang^2 (nuclear SLDs and magnetic magnitudes)
                        accept = [v*1e6]
                    elif n in sld_units:
                        # fit limits of such parameters: the statement does not say
                        accept = [v, v*1e6]
                okv = any((got == a) or (isinstance(a, float) and isinstance(got, float)
                                         and abs(got - a) <= 1e-12*abs(a)) for a in accept)
                rec.check("value_carried", okv, dict(ctx, old_key=ok_, new_key=nk, value=v, got=got, accept=accept),
                          key=_key_carry(target, ok_, nk, n, kctx))
        rec.check("scale_background_defaulted", "scale" in newpars and "background" in newpars,
                  dict(ctx, returned=sorted(newpars)[:40]))
        if not is_hand and not info.structure_factor:
            for nm in ("scale", "background"):
                if nm in original and nm in newpars and nm not in old2new:
                    okc = newpars[nm] == original[nm]
                    rec.check("value_carried", okc, dict(ctx, old_key=nm, new_key=nm, value=original[nm], got=newpars[nm]))
                    if original[nm] == 0.0:
                        rec.bucket("saved-zero-scale-or-background")


def _key_exception(target, where, pars):
    if where.startswith("_hand_convert_3_1_2_to_4_1:KeyError"):
        return "C20/hand-conversion-needs-its-inputs"
    return "C20/exception/%s/%s" % (target, where)


def _key_badkey(target, k, kctx):
    base = k.split(".")[0]
    for suf in ("_pd_nsigma", "_pd_type", "_pd_n", "_pd"):
        if base.endswith(suf):
            base = base[:-len(suf)]
            break
    if base in kctx["control_old"]:
        return "C20/control-parameter-not-carried"
    if base in kctx["table_new"] and base not in kctx["nameset"]:
        # keyed by the entry and the parameter: another entry that falls out of step with its model is a new violation
        idx = base[len(base.rstrip("0123456789")):]
        if target == "unified_power_Rg" and idx in ("0", "7", "8", "9", "10") and base.rstrip("0123456789") in ("rg", "power", "G", "B"):
            return "C20/table-names-parameter-not-in-current-model/unified_power_Rg/levels-0-and-7-to-10"
        if target == "spherical_sld" and idx == "11":
            return "C20/table-names-parameter-not-in-current-model/spherical_sld/index-11"
        return "C20/table-names-parameter-not-in-current-model/%s/%s" % (target, base)
    return "C20/badkey/%s/%s" % (target, base.rstrip("0123456789"))


def _key_carry(target, ok_, nk, n, kctx):
    if n in kctx["control"]:
        return "C20/control-parameter-not-carried"
    return "C20/carry/%s/%s" % (target, nk.split(".")[0].rstrip("0123456789"))


def classify(case, v):
    return v.get("key")


LEVEL_TEXT = ("Every table entry is driven through the real convert_model with generated legacy sets (unique values, "
              "attribute and magnetic keys, version tuples); a table-derived reference mapping judges completion, "
              "returned name, existence of every returned key in the current parameter table and the carry of every "
              "value.  Exploration over generated sets; the table itself is enumerated completely.")
LEVEL_NOTE = ("Trusts CONVERSION_TABLE as the statement's 'table' and load_model_info for the current parameter names; "
              "hand-converted parameters are only checked for completion and key validity.")
TECHNIQUE = "reference-model monitor (table-derived mapping) over generated legacy parameter sets with unique values"
