"""
C18 - building a model is atomic under concurrent first use and crashes.

Real processes perform the real load_model + call_kernel on one shared, empty
cache directory.  A controller grants their gates one at a time (gates: cache
lookup and dlopen via sys.monitoring LINE events on the repository's functions;
"first half written"/"second half written" via a scripted compiler in CC), so
every interleaving of the gate alphabet of the property is executed.  Crash
points: SIGKILL of the whole process group at every statement of make_dll /
compile_model reached during a build and at each compiler gate, followed by a
fresh ungated load.
"""
from __future__ import annotations

import glob
import itertools
import json
import os
import re
import shutil
import signal
import subprocess
import sys
import tempfile
import time

from rtm import core

PROP = "C18"
LEVEL = "fault_enumeration"
EXHAUSTIVE = True
RULE = ("Two-process schedules: every interleaving string over {A,B} with 4 grants each (gates: cache lookup, compiler "
        "about to write first half, compiler about to write second half, dlopen) is executed against the real code - "
        "exhaustive for this gate alphabet; 3-process schedules are a seeded sample; 4/8/16-process runs are "
        "free-running with random gate delays.  Crash points: SIGKILL at every LINE event of make_dll/compile_model "
        "observed in a recorded build and at the three compiler gates, each followed by a fresh load.  Distinct: "
        "hash of the grant order actually executed (schedules) or of the kill point; non-trivial: at least two "
        "processes' gates interleave, or the kill point was reached.")
ASSUMPTIONS = [
    "the scripted compiler (real cc into a private file, then unlink+create+write in two halves under the requested "
    "output name) stands in for the linker's write pattern",
    "rename within the cache directory is atomic (local file system)",
]
REQUIRED_MONITORS = ["all_processes_succeed", "values_correct", "no_load_of_partial_library",
                     "final_name_published_only_by_rename",
                     "load_after_crash_succeeds", "gates_matched", "next_attempt_in_same_process_succeeds",
                     "peer_unaffected_by_failed_build", "first_edition_survives_second_build"]
REQUIRED_BUCKETS = {
    "quick": ["schedule:2proc", "schedule:3proc", "kill:statement", "kill:cc_write1", "kill:cc_write2",
              "kill:cc_done", "kill:after_source_removal", "killcc:cc_write1", "killcc:cc_write2", "killcc:cc_done", "hazard_window_open_during_other_lookup", "publish:rename_observed",
              "first-use-of-missing-cache-directory:2proc", "first-use-of-missing-cache-directory:8proc", "retry:same-process",
              "peer-holds-unopened-library-while-other-build-fails", "system-build:free", "system-build:killed", "two-editions-of-one-model-id",
              "forked-workers:parent-idle", "forked-workers:parent-built-another-model-first",
              "forked-workers:parent-thread-mid-build"],
}
REQUIRED_BUCKETS["thorough"] = REQUIRED_BUCKETS["quick"] + ["stress:4", "stress:8", "stress:16"]
WATCHDOG_S = {"quick": 1800, "thorough": 4*3600}

HERE = os.path.dirname(os.path.abspath(__file__))
PROC = os.path.join(HERE, "_c18_proc.py")
CC = os.path.join(HERE, "_c18_cc.py")
MODEL = "sphere"
_ref = {}


def base_env(cache, ctrl, tag, mode):
    env = dict(os.environ)
    env.update({
        "SAS_DLL_PATH": cache, "RTM_C18_CTRL": ctrl, "RTM_C18_TAG": tag, "RTM_C18_MODE": mode,
        "CC": "%s %s" % (core.PY, CC), "RTM_C18_REAL_CC": "cc",
        "VERIF_REPO": core.REPO, "PYTHONPATH": core.REPO, "SAS_OPENCL": "none",
    })
    for k in ("CFLAGS", "LDFLAGS", "LD_PRELOAD"):
        env.pop(k, None)
    return env


def spawn(cache, ctrl, tag, mode, extra=None, model=None):
    env = base_env(cache, ctrl, tag, mode)
    env.update(extra or {})
    return subprocess.Popen([core.PY, PROC, model or MODEL, mode], env=env, stdout=subprocess.PIPE,
                            stderr=subprocess.PIPE, start_new_session=True, text=True, cwd=HERE)


def result_of(proc, timeout=120):
    try:
        out, err = proc.communicate(timeout=timeout)
    except subprocess.TimeoutExpired:
        try:
            os.killpg(proc.pid, signal.SIGKILL)
        except OSError:
            pass
        out, err = proc.communicate()
        return {"ok": False, "timeout": True, "exit": proc.returncode, "stderr": err[-800:]}
    res = {"ok": False, "exit": proc.returncode}
    for line in out.splitlines():
        if line.startswith("RTMRESULT "):
            res.update(json.loads(line[10:]))
    res["exit"] = proc.returncode
    if proc.returncode != 0:
        res["ok"] = False
        res["stderr"] = err[-800:]
    return res


class Inotify:
    """inotifywait trace of the cache directory: how does each file name come into being?"""

    def __init__(self, cache):
        os.makedirs(cache, exist_ok=True)
        self.proc = subprocess.Popen(["inotifywait", "-m", "-e", "create,modify,moved_to,close_write,delete",
                                      "--format", "%e %f", cache], stdout=subprocess.PIPE,
                                     stderr=subprocess.PIPE, text=True)
        t0 = time.monotonic()
        line = ""
        while "established" not in line and time.monotonic() - t0 < 10:
            line = self.proc.stderr.readline()
        self.ok = "established" in line

    def stop(self):
        time.sleep(0.05)
        self.proc.terminate()
        try:
            out, _ = self.proc.communicate(timeout=5)
        except subprocess.TimeoutExpired:
            self.proc.kill()
            out, _ = self.proc.communicate()
        return [l.split(" ", 1) for l in out.splitlines() if " " in l]


def judge_trace(rec, events, ctx):
    """A final cache name must only ever appear by rename (MOVED_TO), never be created or modified in place."""
    bad = [(e, f) for e, f in events if FINAL_NAME.match(f) and ("CREATE" in e or "MODIFY" in e)]
    rec.check("final_name_published_only_by_rename", not bad,
              dict(ctx, in_place_events=bad[:6], trace=events[:40]), key="C18/final-name-written-in-place")
    # once a complete library has been published under its final name, that name stays occupied: another process may be
    # about to open it (a process that found the name, or built it itself, opens it later)
    gone = []
    present = set()
    for e, f in events:
        if FINAL_NAME.match(f):
            if "MOVED_TO" in e:
                present.add(f)
            elif "DELETE" in e and f in present:
                gone.append((e, f))
    rec.check("published_library_stays_in_place", not gone,
              dict(ctx, removed=gone[:4], trace=[ev for ev in events if FINAL_NAME.match(ev[1])][:20]),
              key="C18/published-library-removed")
    rec.count("inotify_events", len(events))
    if any("MOVED_TO" in e and FINAL_NAME.match(f) for e, f in events):
        rec.bucket("publish:rename_observed")


def reference():
    """Single-process reference values from an ungated run on a private cache."""
    if "Iq" not in _ref:
        d = tempfile.mkdtemp(prefix="c18ref-", dir=os.environ.get("RTM_SCRATCH"))
        try:
            p = spawn(os.path.join(d, "cache"), d, "ref", "plain", {"CC": "cc"})
            r = result_of(p)
            if not r.get("ok"):
                raise RuntimeError("reference run failed: %r" % (r,))
            _ref["Iq"] = r["Iq"]
        finally:
            shutil.rmtree(d, ignore_errors=True)
    return _ref["Iq"]


def record_build():
    """LINE events of make_dll/compile_model during one real build."""
    d = tempfile.mkdtemp(prefix="c18rec-", dir=os.environ.get("RTM_SCRATCH"))
    try:
        p = spawn(os.path.join(d, "cache"), d, "rec", "record", {"CC": "cc"})
        r = result_of(p)
        if not r.get("ok"):
            raise RuntimeError("record run failed: %r" % (r,))
        return [e for e in r["events"]]
    finally:
        shutil.rmtree(d, ignore_errors=True)


# ---------------------------------------------------------------------------

def gen_cases(tier, seed):
    cases = []
    # all interleavings of two processes with 4 grants each
    for k, pos in enumerate(itertools.combinations(range(8), 4)):
        s = "".join("A" if i in pos else "B" for i in range(8))
        cases.append({"id": "sched2/%s" % s, "kind": "sched", "order": s, "nproc": 2, "group": "s2-%d" % k})
    rng = core.rng_for(seed, PROP, "sched3")
    n3 = 50 if tier == "quick" else 1000
    seen = set()
    while len(seen) < n3:
        s = "".join(rng.permutation(list("AAAABBBBCCCC")).tolist())
        if s in seen:
            continue
        seen.add(s)
        cases.append({"id": "sched3/%s" % s, "kind": "sched", "order": s, "nproc": 3, "group": "s3-%d" % len(seen)})
    events = record_build()
    build = [i for i, e in enumerate(events) if e[0] in ("make_dll", "compile_model")]
    for i in build:
        cases.append({"id": "kill/line%02d" % i, "kind": "kill", "mode": "killline:%d" % i,
                      "event": events[i], "group": "k-%d" % i})
    for g in ("cc_write1", "cc_write2", "cc_done"):
        cases.append({"id": "kill/%s" % g, "kind": "kill", "mode": "kill:%s" % g, "event": ["compiler", g],
                      "group": "k-" + g})
    for g in ("cc_write1", "cc_write2", "cc_done"):
        for sig in ("SIGKILL", "SIGTERM", "SIGSEGV"):
            cases.append({"id": "killcc/%s-%s" % (g, sig), "kind": "kill", "mode": "killcc:%s:%s" % (g, sig),
                          "event": ["compiler-only", g, sig], "group": "kc-%s-%s" % (g, sig)})
    # first use of a cache directory that does not exist yet, by several processes released together just before
    # the statement that creates it
    for n in (2, 3, 8) + ((16,) if tier == "thorough" else ()):
        for r in range(2 if tier == "quick" else 6):
            cases.append({"id": "mkdir/%02d-%d" % (n, r), "kind": "mkdir", "nproc": n, "group": "mk-%d-%d" % (n, r), "cost": n/2})
    # the compiler fails once (killed before / during / after writing its output, or exits 1) and the same
    # python process tries again
    for g in ("cc_write1", "cc_write2", "cc_done"):
        for sig in ("SIGKILL", "SIGTERM", "EXIT1"):
            cases.append({"id": "retry/%s-%s" % (g, sig), "kind": "retry", "mode": "killcconce:%s:%s" % (g, sig),
                          "event": ["compiler-fails-once", g, sig], "group": "rt-%s-%s" % (g, sig)})
    for g in ("cc_write1", "cc_write2", "cc_done"):
        for sig in ("SIGKILL", "EXIT1"):
            cases.append({"id": "peerfail/%s-%s" % (g, sig), "kind": "peerfail", "fail": "%s:%s" % (g, sig),
                          "group": "pf-%s-%s" % (g, sig), "cost": 2})
    for md in ("free", "kill:cc_write1", "kill:cc_write2", "kill:cc_done"):
        cases.append({"id": "system/%s" % md.replace(":", "-"), "kind": "system", "mode": md, "group": "sys-" + md, "cost": 2})
    for n in (20, 150):
        cases.append({"id": "editions/%d" % n, "kind": "editions", "n": n, "group": "ed-%d" % n, "cost": 3})
    for n in (1, 3):
        cases.append({"id": "xfs/%d" % n, "kind": "xfs", "nproc": n, "group": "xfs-%d" % n, "cost": 2})
    # workers forked from one interpreter, which has or has not built another model itself before forking
    for pre in ("none", "guinier", "thread:guinier"):
        for n in (2, 3, 6):
            for r in range(1 if tier == "quick" else 6):
                cases.append({"id": "forked/%s-%d-%d" % (pre, n, r), "kind": "forked", "nproc": n, "prebuild": pre, "rep": r,
                              "seed": seed, "group": "fk-%s-%d-%d" % (pre, n, r), "cost": n/2})
    if tier == "thorough":
        for n in (4, 8, 16):
            for r in range(12 if n < 16 else 6):
                cases.append({"id": "stress/%02d-%02d" % (n, r), "kind": "stress", "nproc": n, "rep": r,
                              "seed": seed, "group": "st-%d-%d" % (n, r), "cost": n})
    return cases


def read_at(ctrl, tag, n):
    p = os.path.join(ctrl, "%s.at.%d" % (tag, n))
    try:
        parts = open(p).read().split()
        return {"gate": parts[0], "pid": int(parts[1]), "path": parts[2] if len(parts) > 3 else "",
                "t": float(parts[-1])}
    except Exception:
        return None


def run_sched(case, rec):
    ref = reference()
    work = tempfile.mkdtemp(prefix="c18-", dir=os.environ.get("RTM_SCRATCH"))
    cache, ctrl = os.path.join(work, "cache"), os.path.join(work, "ctrl")
    os.makedirs(ctrl)
    tags = "ABC"[:case["nproc"]]
    ino = Inotify(cache)
    procs = {t: spawn(cache, ctrl, t, "gated") for t in tags}
    nxt = {t: 0 for t in tags}        # index of the next gate of each process
    log = []

    def waiting(t, timeout=60.0):
        """Block until process t is at its next gate (returns the gate) or has exited (None)."""
        t0 = time.monotonic()
        while True:
            at = read_at(ctrl, t, nxt[t])
            if at is not None:
                return at
            if procs[t].poll() is not None:
                # the process may have written the gate file just before exiting: re-check once
                return read_at(ctrl, t, nxt[t])
            if time.monotonic() - t0 > timeout:
                return "timeout"
            time.sleep(0.001)

    try:
        state = {}
        for t in tags:
            state[t] = waiting(t)
        for letter in case["order"] + tags*8:
            st = state.get(letter)
            if st is None:
                continue
            if st == "timeout":
                break
            log.append([letter, st["gate"], st["path"]])
            open(os.path.join(ctrl, "%s.go.%d" % (letter, nxt[letter])), "w").close()
            nxt[letter] += 1
            state[letter] = waiting(letter)
            if all(v is None for v in state.values()):
                break
        results = {t: result_of(procs[t], timeout=60) for t in tags}
        if any(v == "timeout" for v in state.values()):
            rec.skip("gate wait timed out")
            raise RuntimeError("controller timed out waiting for a gate: %r" % (log,))
        judge_schedule(case, rec, log, results, ref, cache)
        judge_trace(rec, ino.stop(), {"order": "".join(l for l, _, _ in log)})
    finally:
        if ino.proc.poll() is None:
            ino.proc.kill()
        for p in procs.values():
            if p.poll() is None:
                try:
                    os.killpg(p.pid, signal.SIGKILL)
                except OSError:
                    pass
        shutil.rmtree(work, ignore_errors=True)


def judge_schedule(case, rec, log, results, ref, cache):
    order = "".join(l for l, _, _ in log)
    rec.bucket("schedule:%dproc" % case["nproc"])
    # offline checker over the linearised grant log
    owner, partial = {}, {}
    hazards, lookups_in_window = [], 0
    finals = {r.get("dll") for r in results.values() if r.get("dll")}
    for i, (t, gate, path) in enumerate(log):
        if gate == "cc_write1":
            owner[path] = t
            partial[path] = True
        elif gate == "cc_write2":
            if owner.get(path) == t:
                # the second half is written when this grant is consumed; the file is complete only
                # once the process reaches its next gate, which the controller waited for
                partial[path] = "closing"
        if gate in ("lookup", "load"):
            # grants are serialised: everything granted before has fully executed
            for p_, v in list(partial.items()):
                if v == "closing":
                    partial[p_] = False
            if partial.get(path):
                if gate == "load":
                    hazards.append({"step": i, "process": t, "path": os.path.basename(path),
                                    "writer": owner.get(path)})
                else:
                    lookups_in_window += 1
            if gate == "lookup" and any(v for v in partial.values()):
                rec.bucket("hazard_window_open_during_other_lookup")
    rec.check("no_load_of_partial_library", not hazards,
              {"order": order, "log": log, "hazards": hazards}, key="C18/load-of-partially-written-library")
    gates = {g for _, g, _ in log}
    # whether the harness found the statements it gates on is an observation about the harness, not about the property:
    # a tree whose lookup or load statement is worded differently cannot be scheduled, which is inconclusive
    if {"lookup", "load"} <= gates and "cc_write1" in gates:
        rec.seen("gates_matched")
    else:
        rec.inconclusive("schedule gates not found in the code under test (found: %s)" % sorted(gates))
    bad = {t: {k: r.get(k) for k in ("exit", "error", "stderr", "timeout")} for t, r in results.items()
           if not r.get("ok")}
    rec.check("all_processes_succeed", not bad, {"order": order, "log": log, "failed": bad},
              key="C18/process-failed-under-concurrent-first-use")
    for t, r in results.items():
        if r.get("ok"):
            rec.check("values_correct", r["Iq"] == ref, {"order": order, "process": t, "got": r["Iq"], "ref": ref})
    interleaved = len(set(order[:len(order)//2])) > 1
    rec.set_shape(("sched", order), nontrivial=interleaved)
    rec.observe(requested=case["order"], executed=order, log=[[t, g, os.path.basename(p)] for t, g, p in log],
                exits={t: r.get("exit") for t, r in results.items()}, lookups_in_hazard_window=lookups_in_window)
    rec.count("grants", len(log))


FINAL_NAME = re.compile(r"^sas\d+_.+_[0-9A-F]{8}\.so$")


def run_kill(case, rec):
    ref = reference()
    work = tempfile.mkdtemp(prefix="c18-", dir=os.environ.get("RTM_SCRATCH"))
    cache, ctrl = os.path.join(work, "cache"), os.path.join(work, "ctrl")
    os.makedirs(ctrl)
    try:
        mode = case["mode"]
        ino = Inotify(cache)
        p = spawn(cache, ctrl, "K", mode, {"TMPDIR": work})
        r = result_of(p, timeout=120)
        killed = (r["exit"] == -signal.SIGKILL)
        if mode.startswith("killcc"):
            # only the compiler died: the builder may report an error, but must not crash on a signal
            # or return wrong values
            killed = True
            rec.bucket("killcc:" + mode.split(":")[1])
            okb = (r.get("ok") and r.get("Iq") == ref) or (not r.get("ok") and (r.get("exit") or 0) > 0
                                                           and not r.get("timeout"))
            rec.check("builder_survives_compiler_death", bool(okb),
                      {"mode": mode, "builder": {k: r.get(k) for k in ("ok", "exit", "error", "Iq", "stderr")}},
                      key="C18/truncated-library-published-after-compiler-death")
        elif mode.startswith("killline"):
            rec.bucket("kill:statement")
            text = case["event"][1]
            if "os.unlink" in text or text.startswith("return dll") or "else:" in text:
                pass
        else:
            rec.bucket(mode)
        listing = sorted(os.listdir(cache)) if os.path.isdir(cache) else []
        src_left = [f for f in os.listdir(work) if f.endswith(".c")]
        finals = [f for f in listing if FINAL_NAME.match(f)]
        if killed and finals and not src_left:
            rec.bucket("kill:after_source_removal")
        if killed and finals:
            rec.bucket("kill:final_name_present")
        if killed and not finals:
            rec.bucket("kill:before_final_name")
        rec.seen("kill_point_reached", 1 if killed else 0)
        if not killed:
            rec.inconclusive("kill point %s was not reached: exit %s %s" % (case["event"], r.get("exit"),
                                                                             (r.get("error") or "")[:200]))
        # a fresh, ungated process with the ordinary compiler must now succeed
        p2 = spawn(cache, ctrl, "F", "plain", {"CC": "cc", "TMPDIR": work})
        r2 = result_of(p2, timeout=120)
        rec.check("load_after_crash_succeeds", bool(r2.get("ok")) and r2.get("Iq") == ref,
                  {"kill": case["event"], "mode": mode, "cache_after_kill": listing,
                   "fresh": {k: r2.get(k) for k in ("ok", "exit", "error", "stderr", "Iq")}, "ref": ref},
                  key="C18/truncated-library-left-under-final-name")
        # every file that carries a final cache name must be a complete, loadable library
        import ctypes
        for f in [x for x in (os.listdir(cache) if os.path.isdir(cache) else []) if FINAL_NAME.match(x)]:
            chk = subprocess.run([core.PY, "-c", "import ctypes,sys; ctypes.CDLL(sys.argv[1])",
                                  os.path.join(cache, f)], capture_output=True, text=True)
            rec.check("final_names_are_loadable", chk.returncode == 0,
                      {"file": f, "exit": chk.returncode, "stderr": chk.stderr[-300:], "kill": case["event"]},
                      key="C18/truncated-library-left-under-final-name")
        judge_trace(rec, ino.stop(), {"kill": case["event"]})
        rec.set_shape(("kill", mode, case["event"]), nontrivial=killed)
        rec.observe(kill=case["event"], killed=killed, cache_after_kill=listing, source_left=src_left,
                    fresh_ok=r2.get("ok"))
    finally:
        shutil.rmtree(work, ignore_errors=True)


def run_stress(case, rec):
    ref = reference()
    work = tempfile.mkdtemp(prefix="c18-", dir=os.environ.get("RTM_SCRATCH"))
    cache, ctrl = os.path.join(work, "cache"), os.path.join(work, "ctrl")
    os.makedirs(ctrl)
    rng = core.rng_for(case["seed"], PROP, "stress", case["nproc"], case["rep"])
    try:
        ino = Inotify(cache)
        procs = {}
        for i in range(case["nproc"]):
            extra = {"RTM_C18_DELAY_%s" % g: "%.4f" % float(rng.choice([0, 0, 0.002, 0.01, 0.05, 0.2]))
                     for g in ("lookup", "cc_write1", "cc_write2", "load")}
            procs["P%02d" % i] = spawn(cache, ctrl, "P%02d" % i, "free", extra)
        results = {t: result_of(p, timeout=300) for t, p in procs.items()}
        bad = {t: {k: r.get(k) for k in ("exit", "error", "stderr", "timeout")} for t, r in results.items()
               if not r.get("ok")}
        rec.check("all_processes_succeed", not bad, {"nproc": case["nproc"], "failed": bad},
                  key="C18/process-failed-under-concurrent-first-use")
        for t, r in results.items():
            if r.get("ok"):
                rec.check("values_correct", r["Iq"] == ref, {"process": t, "got": r["Iq"], "ref": ref})
        # reconstruct the observed order from the gate time stamps
        evs = []
        for t in procs:
            n = 0
            while True:
                at = read_at(ctrl, t, n)
                if at is None:
                    break
                evs.append((at["t"], t, at["gate"]))
                n += 1
        evs.sort()
        order = [(t, g) for _, t, g in evs]
        builders = len({t for t, g in order if g == "cc_write1"})
        judge_trace(rec, ino.stop(), {"nproc": case["nproc"]})
        rec.bucket("stress:%d" % case["nproc"])
        rec.set_shape(("stress", case["nproc"], order), nontrivial=builders >= 1)
        rec.observe(nproc=case["nproc"], builders=builders, events=len(order), first_events=order[:12])
        rec.count("stress_builders", builders)
    finally:
        shutil.rmtree(work, ignore_errors=True)


def run_mkdir(case, rec):
    ref = reference()
    work = tempfile.mkdtemp(prefix="c18-", dir=os.environ.get("RTM_SCRATCH"))
    cache, ctrl = os.path.join(work, "newcache", "sub"), os.path.join(work, "ctrl")
    os.makedirs(ctrl)
    try:
        tags = ["M%02d" % k for k in range(case["nproc"])]
        procs = {t: spawn(cache, ctrl, t, "mkdirgate", {"CC": "cc", "TMPDIR": work}) for t in tags}
        t0 = time.monotonic()
        while time.monotonic() - t0 < 90:
            if all(os.path.exists(os.path.join(ctrl, t + ".mkdir.at")) or procs[t].poll() is not None for t in tags):
                break
            time.sleep(0.002)
        held = [t for t in tags if os.path.exists(os.path.join(ctrl, t + ".mkdir.at"))]
        existed = os.path.isdir(cache)
        open(os.path.join(ctrl, "release"), "w").close()
        results = {t: result_of(procs[t], timeout=120) for t in tags}
        rec.seen("held_before_directory_creation", len(held))
        if len(held) < 2 or existed:
            rec.inconclusive("fewer than two participants were held before the cache directory was created (%d, existed=%s)"
                             % (len(held), existed))
        bad = {t: {k: r.get(k) for k in ("exit", "error", "stderr", "timeout")} for t, r in results.items() if not r.get("ok")}
        rec.check("all_processes_succeed", not bad, {"nproc": case["nproc"], "held_at_mkdir": held, "failed": bad},
                  key="C18/process-failed-under-concurrent-first-use")
        for t, r in results.items():
            if r.get("ok"):
                rec.check("values_correct", r["Iq"] == ref, {"process": t, "got": r["Iq"], "ref": ref})
        rec.bucket("first-use-of-missing-cache-directory:%dproc" % case["nproc"])
        rec.set_shape(("mkdir", case["nproc"], case["id"]), nontrivial=len(held) >= 2)
        rec.observe(nproc=case["nproc"], held=len(held))
    finally:
        for p in procs.values():
            if p.poll() is None:
                try:
                    os.killpg(p.pid, signal.SIGKILL)
                except OSError:
                    pass
        shutil.rmtree(work, ignore_errors=True)


def run_peerfail(case, rec):
    """Two processes miss the cache; B builds, installs and holds the model without having opened the library yet;
    then A's build fails (its compiler dies); B's later first evaluation and a fresh process must both succeed."""
    ref = reference()
    work = tempfile.mkdtemp(prefix="c18-", dir=os.environ.get("RTM_SCRATCH"))
    cache, ctrl = os.path.join(work, "cache"), os.path.join(work, "ctrl")
    os.makedirs(ctrl)
    procs = {}
    nxt = {"A": 0, "B": 0}
    log = []

    def waiting(t, timeout=90.0):
        t0 = time.monotonic()
        while True:
            at = read_at(ctrl, t, nxt[t])
            if at is not None:
                return at
            if procs[t].poll() is not None:
                return read_at(ctrl, t, nxt[t])
            if time.monotonic() - t0 > timeout:
                return "timeout"
            time.sleep(0.001)

    def grant(t):
        open(os.path.join(ctrl, "%s.go.%d" % (t, nxt[t])), "w").close()
        nxt[t] += 1

    def advance(t, until):
        """grant gates of t until it waits at gate *until* (not granted) or exits"""
        while True:
            at = waiting(t)
            if at is None or at == "timeout":
                return at
            log.append([t, at["gate"]])
            if at["gate"] == until:
                return at
            grant(t)
    try:
        procs["A"] = spawn(cache, ctrl, "A", "gated", {"RTM_C18_CCFAIL": case["fail"], "TMPDIR": work})
        procs["B"] = spawn(cache, ctrl, "B", "gated", {"TMPDIR": work})
        a0, b0 = waiting("A"), waiting("B")
        if not (isinstance(a0, dict) and isinstance(b0, dict) and a0["gate"] == b0["gate"] == "lookup"):
            rec.inconclusive("participants did not both reach the lookup gate: %r %r" % (a0, b0))
            return
        grant("A")                                  # A misses the cache
        grant("B")                                  # B misses the cache
        atA = advance("A", "cc_write1")             # A's compiler is about to write
        atB = advance("B", "load")                  # B builds, installs, and holds the model unopened
        if not (isinstance(atB, dict) and atB["gate"] == "load"):
            rec.inconclusive("B did not reach its load gate: %r" % (atB,))
            return
        installed = [f for f in os.listdir(cache) if FINAL_NAME.match(f)]
        advance("A", "never")                       # A runs on: its compiler fails at the chosen gate
        rA = result_of(procs["A"], timeout=120)
        after_fail = [f for f in os.listdir(cache) if FINAL_NAME.match(f)]
        grant("B")                                  # B now opens the library
        advance("B", "never")
        rB = result_of(procs["B"], timeout=120)
        rec.seen("peer_build_failed", 0 if rA.get("ok") else 1)
        if rA.get("ok"):
            rec.inconclusive("A's build did not fail (fault %s not reached)" % case["fail"])
        okB = bool(rB.get("ok")) and rB.get("Iq") == ref
        rec.check("peer_unaffected_by_failed_build", okB,
                  {"fault_in_A": case["fail"], "A": {k: rA.get(k) for k in ("ok", "exit", "error")},
                   "B": {k: rB.get(k) for k in ("ok", "exit", "error", "Iq", "stderr")}, "installed_before_fault": installed,
                   "present_after_fault": after_fail, "log": log})
        p3 = spawn(cache, ctrl, "F", "plain", {"CC": "cc", "TMPDIR": work})
        r3 = result_of(p3, timeout=120)
        rec.check("load_after_crash_succeeds", bool(r3.get("ok")) and r3.get("Iq") == ref,
                  {"fault_in_A": case["fail"], "fresh": {k: r3.get(k) for k in ("ok", "exit", "error", "Iq")}})
        rec.bucket("peer-holds-unopened-library-while-other-build-fails")
        rec.set_shape(("peerfail", case["fail"]), nontrivial=not rA.get("ok"))
        rec.observe(fault=case["fail"], log=log, A_ok=rA.get("ok"), B_ok=rB.get("ok"))
    finally:
        for p in procs.values():
            if p.poll() is None:
                try:
                    os.killpg(p.pid, signal.SIGKILL)
                except OSError:
                    pass
        shutil.rmtree(work, ignore_errors=True)


def run_xfs(case, rec):
    """Cache directory and temporary directory on different file systems: the final name still appears only by
    rename (observed with inotify), and a second process started meanwhile succeeds."""
    ref = reference()
    work = tempfile.mkdtemp(prefix="c18-", dir=os.environ.get("RTM_SCRATCH"))
    other = "/dev/shm"
    if not os.path.isdir(other) or not os.access(other, os.W_OK) or os.stat(other).st_dev == os.stat(work).st_dev:
        rec.skip("no second writable file system available")
        rec.set_shape(("xfs", "unavailable"), False)
        shutil.rmtree(work, ignore_errors=True)
        return
    shm = tempfile.mkdtemp(prefix="rtm-c18-", dir=other)
    cache, ctrl = os.path.join(shm, "cache"), os.path.join(work, "ctrl")
    os.makedirs(ctrl)
    try:
        ino = Inotify(cache)
        procs = {t: spawn(cache, ctrl, t, "free", {"TMPDIR": work}) for t in ("X0", "X1", "X2")[:case["nproc"]]}
        results = {t: result_of(p, timeout=180) for t, p in procs.items()}
        bad = {t: {k: r.get(k) for k in ("exit", "error", "stderr", "timeout")} for t, r in results.items() if not r.get("ok")}
        rec.check("all_processes_succeed", not bad, {"nproc": case["nproc"], "failed": bad, "cache_on": other},
                  key="C18/process-failed-under-concurrent-first-use")
        for t, r in results.items():
            if r.get("ok"):
                rec.check("values_correct", r["Iq"] == ref, {"process": t, "got": r["Iq"], "ref": ref})
        judge_trace(rec, ino.stop(), {"cache_on": other, "tmpdir_on": work})
        rec.bucket("cache-and-tmpdir-on-different-file-systems")
        rec.set_shape(("xfs", case["nproc"]), True)
    finally:
        shutil.rmtree(shm, ignore_errors=True)
        shutil.rmtree(work, ignore_errors=True)


def run_editions(case, rec):
    """Two generated sources of one model id in one cache: building the second does not take the first one's library
    away from a process that holds it unopened."""
    work = tempfile.mkdtemp(prefix="c18-", dir=os.environ.get("RTM_SCRATCH"))
    cache, ctrl = os.path.join(work, "cache"), os.path.join(work, "ctrl")
    os.makedirs(ctrl)
    try:
        r0 = result_of(spawn(os.path.join(work, "refcache"), ctrl, "R0", "plain", {"CC": "cc", "TMPDIR": work}, model="cylinder"), timeout=180)
        if not r0.get("ok"):
            rec.inconclusive("reference run for cylinder failed: %r" % (r0.get("error"),))
            return
        r = result_of(spawn(cache, ctrl, "E", "plain", {"CC": "cc", "TMPDIR": work, "RTM_C18_EDITIONS": str(case["n"])},
                            model="cylinder"), timeout=240)
        ok = bool(r.get("ok")) and r.get("Iq") == r0["Iq"]
        rec.check("first_edition_survives_second_build", ok,
                  {"second_edition_points": case["n"], "result": {k: r.get(k) for k in ("ok", "exit", "error", "Iq", "second_edition")},
                   "reference": r0["Iq"], "cache": sorted(os.listdir(cache)) if os.path.isdir(cache) else []})
        libs = [f for f in (os.listdir(cache) if os.path.isdir(cache) else []) if FINAL_NAME.match(f)]
        rec.check("first_edition_survives_second_build", len(libs) >= 2, {"libraries_in_cache": libs})
        r3 = result_of(spawn(cache, ctrl, "F", "plain", {"CC": "cc", "TMPDIR": work}, model="cylinder"), timeout=120)
        rec.check("load_after_crash_succeeds", bool(r3.get("ok")) and r3.get("Iq") == r0["Iq"],
                  {"after": "two editions built", "fresh": {k: r3.get(k) for k in ("ok", "exit", "error", "Iq")}})
        rec.bucket("two-editions-of-one-model-id")
        rec.set_shape(("editions", case["n"]), True)
    finally:
        shutil.rmtree(work, ignore_errors=True)


def run_system(case, rec):
    """The packaging build (make_dll(system=True), used by core.precompile_dlls) into a shared cache directory: the final
    name appears only by rename, and after a kill of the builder at a compiler gate the next load succeeds."""
    ref = reference()
    work = tempfile.mkdtemp(prefix="c18-", dir=os.environ.get("RTM_SCRATCH"))
    cache, ctrl = os.path.join(work, "cache"), os.path.join(work, "ctrl")
    os.makedirs(ctrl)
    try:
        ino = Inotify(cache)
        mode = case.get("mode", "free")
        p = spawn(cache, ctrl, "S", mode, {"TMPDIR": work, "RTM_C18_SYSTEM": "1"})
        r = result_of(p, timeout=180)
        if mode == "free":
            rec.check("all_processes_succeed", bool(r.get("ok")) and r.get("Iq") == ref,
                      {"build": "system", "result": {k: r.get(k) for k in ("ok", "exit", "error", "Iq")}},
                      key="C18/process-failed-under-concurrent-first-use")
        else:
            rec.seen("kill_point_reached", 1 if r.get("exit") == -signal.SIGKILL else 0)
            if r.get("exit") != -signal.SIGKILL:
                rec.inconclusive("system build was not killed at %s" % mode)
        p2 = spawn(cache, ctrl, "F", "plain", {"CC": "cc", "TMPDIR": work})
        r2 = result_of(p2, timeout=120)
        rec.check("load_after_crash_succeeds", bool(r2.get("ok")) and r2.get("Iq") == ref,
                  {"build": "system", "mode": mode, "cache": sorted(os.listdir(cache)) if os.path.isdir(cache) else [],
                   "fresh": {k: r2.get(k) for k in ("ok", "exit", "error", "stderr", "Iq")}},
                  key="C18/truncated-library-left-under-final-name")
        judge_trace(rec, ino.stop(), {"build": "system", "mode": mode})
        rec.bucket("system-build:" + ("free" if mode == "free" else "killed"))
        rec.set_shape(("system", mode), True)
    finally:
        shutil.rmtree(work, ignore_errors=True)


def run_retry(case, rec):
    ref = reference()
    work = tempfile.mkdtemp(prefix="c18-", dir=os.environ.get("RTM_SCRATCH"))
    cache, ctrl = os.path.join(work, "cache"), os.path.join(work, "ctrl")
    os.makedirs(ctrl)
    try:
        p = spawn(cache, ctrl, "R", "retry", {"TMPDIR": work, "RTM_C18_MODE": case["mode"]})
        r = result_of(p, timeout=180)
        failed_once = os.path.exists(os.path.join(ctrl, "R.once"))
        rec.seen("compiler_failed_once", 1 if failed_once else 0)
        if not failed_once:
            rec.inconclusive("the scripted compiler never reached %s" % (case["event"],))
        ok = bool(r.get("ok")) and r.get("Iq") == ref
        rec.check("next_attempt_in_same_process_succeeds", ok,
                  {"fault": case["event"], "first_attempt": r.get("first_attempt"),
                   "second_attempt": {k: r.get(k) for k in ("ok", "exit", "error", "Iq", "stderr")}, "ref": ref})
        for f in [x for x in (os.listdir(cache) if os.path.isdir(cache) else []) if FINAL_NAME.match(x)]:
            chk = subprocess.run([core.PY, "-c", "import ctypes,sys; ctypes.CDLL(sys.argv[1])",
                                  os.path.join(cache, f)], capture_output=True, text=True)
            rec.check("final_names_are_loadable", chk.returncode == 0,
                      {"file": f, "exit": chk.returncode, "stderr": chk.stderr[-300:], "fault": case["event"]})
        rec.bucket("retry:same-process", "retry:" + case["event"][1])
        rec.set_shape(("retry", case["mode"]), nontrivial=failed_once)
        rec.observe(fault=case["event"], first_attempt=r.get("first_attempt"), second_ok=r.get("ok"))
    finally:
        shutil.rmtree(work, ignore_errors=True)


FORK = os.path.join(HERE, "_c18_fork.py")


def run_forked(case, rec):
    """Workers forked from one interpreter (which may already have built and used another model) load the same
    not-yet-compiled model at the same time."""
    ref = reference()
    work = tempfile.mkdtemp(prefix="c18-", dir=os.environ.get("RTM_SCRATCH"))
    cache, ctrl = os.path.join(work, "cache"), os.path.join(work, "ctrl")
    os.makedirs(ctrl)
    rng = core.rng_for(case["seed"], PROP, "forked", case["nproc"], case["prebuild"], case["rep"])
    try:
        ino = Inotify(cache)
        env = base_env(cache, ctrl, "F", "free")
        env.update({"RTM_C18_DELAY_%s" % g: "%.4f" % float(rng.choice([0, 0.002, 0.01, 0.05]))
                    for g in ("cc_write1", "cc_write2")})
        if case["prebuild"].startswith("thread:"):
            env["RTM_C18_DELAY_cc_write1"] = "1.5"      # the parent's compiler run is held while the workers are forked
        proc = subprocess.Popen([core.PY, FORK, MODEL, str(case["nproc"]), case["prebuild"]], env=env,
                                stdout=subprocess.PIPE, stderr=subprocess.PIPE, start_new_session=True, text=True, cwd=HERE)
        res = result_of(proc, timeout=300)
        workers = res.get("workers") or {}
        rec.check("all_processes_succeed", bool(workers) and len(workers) == case["nproc"] and bool(res.get("parent_ok")),
                  {"forked_workers": case["nproc"], "parent_built_first": case["prebuild"], "reported": len(workers),
                   "parent_error": res.get("parent_error"), "stderr": res.get("stderr"), "timeout": res.get("timeout")})
        bad = {t: {k: r.get(k) for k in ("error", "tb", "status")} for t, r in workers.items() if not r.get("ok")}
        rec.check("all_processes_succeed", not bad,
                  {"forked_workers": case["nproc"], "parent_built_first": case["prebuild"], "failed": bad},
                  key="C18/process-failed-under-concurrent-first-use")
        for t, r in workers.items():
            if r.get("ok"):
                rec.check("values_correct", r["Iq"] == ref, {"process": t, "got": r["Iq"], "ref": ref})
        judge_trace(rec, ino.stop(), {"forked_workers": case["nproc"], "parent_built_first": case["prebuild"]})
        if case["prebuild"].startswith("thread:"):
            rec.bucket("forked-workers:parent-thread-mid-build" if res.get("forked_while_thread_building")
                       else "forked-workers:parent-thread-finished-early")
        else:
            rec.bucket("forked-workers:parent-" + ("built-another-model-first" if case["prebuild"] != "none" else "idle"))
        rec.set_shape(("forked", case["nproc"], case["prebuild"], case["rep"]), nontrivial=len(workers) >= 2)
        rec.observe(forked_workers=case["nproc"], parent_built_first=case["prebuild"],
                    workers_ok=sum(1 for r in workers.values() if r.get("ok")))
    finally:
        shutil.rmtree(work, ignore_errors=True)


def run_case(case, rec):
    if case["kind"] == "forked":
        return run_forked(case, rec)
    if case["kind"] == "mkdir":
        return run_mkdir(case, rec)
    if case["kind"] == "retry":
        return run_retry(case, rec)
    if case["kind"] == "peerfail":
        return run_peerfail(case, rec)
    if case["kind"] == "system":
        return run_system(case, rec)
    if case["kind"] == "editions":
        return run_editions(case, rec)
    if case["kind"] == "xfs":
        return run_xfs(case, rec)
    if case["kind"] == "sched":
        run_sched(case, rec)
    elif case["kind"] == "kill":
        run_kill(case, rec)
    else:
        run_stress(case, rec)


def classify(case, v):
    return v.get("key")


LEVEL_TEXT = ("Fault enumeration: all 70 two-process interleavings of the property's gate alphabet (lookup, first half "
              "written, second half written, dlopen) and a kill at every statement of the build path plus the compiler "
              "gates are executed with real processes on a shared cache; 3-process schedules are sampled and 4-16 "
              "process runs are free-running stress.  Verdicts come from exit statuses, returned values and an "
              "offline checker over the grant log (no dlopen inside a write window).")
LEVEL_NOTE = ("Trusts the scripted compiler as a model of the linker's write pattern and local-filesystem rename "
              "atomicity; interleavings finer than the gate alphabet (inside the real linker) are not explored.")
TECHNIQUE = "deterministic gate scheduling of real processes via sys.monitoring failpoints + scripted compiler; SIGKILL crash-point enumeration; offline log checker"
DESIGN_REF = "DESIGN.md section 5, C18"
