"""
C09 - pure-Python and compiled-C executions of one model definition agree.

Plugin definitions are generated as a small structure and written twice: with
embedded C strings and with vectorised Python functions (the *same* expression
text, valid in C and numpy through sasmodels.special).  A third evaluator in
the harness walks the expression tree directly over the mesh.
"""
from __future__ import annotations

import itertools
import math
import os

import numpy as np

from rtm import core, sas

PROP = "C09"
LEVEL = "exploration"
RULE = ("Generated plugin definitions: 1..8 parameters of types volume/sld/'' (optionally a vector name[n] with control "
        "parameter), random arithmetic Iq over q and the parameters using + - * / exp sin cos sqrt(fabs) log1p(square) "
        "cube square sas_sinx_x, optional form_volume, shell_volume, radius_effective with 1..3 modes, optional validity "
        "predicate x random parameter sets x dispersity meshes (C01 shapes incl. truncation to 1/0 points and cutoffs) x "
        "1-D/2-D; one ill-formed variant per definition.  Distinct: hash of (definition index, case shape).  "
        "Non-trivial: the definition has at least one volume parameter and a dispersity mesh with >= 2 points, or is a "
        "truncation/invalid-point case.")
ASSUMPTIONS = ["sasmodels.special provides the C names for the Python rendering (the documented way to write portable models)",
               "invalid points: C uses the validity string, Python returns NaN (the documented Python convention)"]
REQUIRED_MONITORS = ["python_equals_c", "both_equal_formula", "ill_formed_rejected"]
REQUIRED_BUCKETS = {"quick": ["has:vector", "has:shell_volume", "has:radius_effective", "has:valid", "has:orientation", "dim:1d", "dim:2d",
                              "mesh:mono", "mesh:>=2dims", "trunc:1", "trunc:0", "cutoff>0", "invalid_points>0",
                              "mono_invalid", "lane:asan", "wrapper:first", "wrapper:revised", "has:shell_volume-in-inline-c-code", "mesh:unnormalised-weights-with-cutoff", "jitter:psi-alone", "jitter:theta-alone"]}
REQUIRED_BUCKETS["thorough"] = REQUIRED_BUCKETS["quick"]


def worker_init(tier, seed):
    sas.install_poison()


def gen_cases(tier, seed):
    ndef, ncase = (40, 12) if tier == "quick" else (600, 20)
    cases = []
    for d in range(ndef):
        cases.append({"id": "def/%04d" % d, "d": d, "ncase": ncase, "seed": seed, "group": "d%d" % d, "lane": "plain",
                      "cost": ncase/10.0})
    for d in range(4 if tier == "quick" else 40):
        cases.append({"id": "asan/%04d" % d, "d": 9000 + d, "ncase": 6, "seed": seed, "group": "a%d" % d, "lane": "asan", "cost": 4})
    return cases


# ---------------------------------------------------------------------------
# definition generator
# ---------------------------------------------------------------------------

def gen_definition(rng, d):
    nvol = int(rng.integers(1, 4))
    vols = ["radius", "thick", "length"][:nvol]
    has_vector = bool(d % 3 == 0)
    slds = ["sld", "sld_solvent"][:int(rng.integers(1, 3))]
    plain = ["alpha", "beta"][:int(rng.integers(0, 3))]
    pars = []
    for s in slds:
        pars.append([s, "1e-6/Ang^2", float(rng.uniform(0.5, 6)), [-np.inf, np.inf], "sld", s])
    for v_ in vols:
        pars.append([v_, "Ang", float(rng.uniform(10, 80)), [0, np.inf], "volume", v_])
    if has_vector:
        pars.append(["n_shells", "", 2, [1, 3], "volume", "number of shells"])
        pars.append(["shell[n_shells]", "Ang", float(rng.uniform(5, 30)), [0, np.inf], "volume", "shell thickness"])
    for p in plain:
        pars.append([p, "", float(rng.uniform(0.2, 2)), [0, 10.0], "", p])
    # lengths usable in expressions
    lens = [("v", v_) for v_ in vols] + ([("ix", "shell", 0), ("ix", "shell", 1)] if has_vector else [])

    def length():
        return lens[int(rng.integers(len(lens)))]

    def factor():
        r = int(rng.integers(7))
        L = length()
        arg = ("*", ("v", "q"), L)
        if r == 0:
            return ("f", "sas_sinx_x", arg)
        if r == 1:
            return ("f", "exp", ("*", ("k", -0.1), ("f", "square", arg)))
        if r == 2:
            return ("f", "cos", arg)
        if r == 3 and len(slds) == 2:
            return ("-", ("v", "sld"), ("v", "sld_solvent"))
        if r == 4 and plain:
            return ("+", ("v", plain[int(rng.integers(len(plain)))]), ("k", 0.5))
        if r == 5:
            return ("/", L, ("+", ("+", length(), length()), ("k", 1.0)))
        if r == 6:
            return ("f", "sqrt", ("f", "fabs", ("f", "sin", arg)))
        return ("f", "log1p", ("f", "square", arg))

    terms = []
    for _ in range(int(rng.integers(1, 4))):
        t = factor()
        for _ in range(int(rng.integers(0, 3))):
            t = ("*", t, factor())
        terms.append(("*", ("k", float(rng.uniform(0.5, 2.0))), t))
    body = terms[0]
    for t in terms[1:]:
        body = ("+", body, t)
    iq = ("+", ("*", ("k", 1e-2), ("f", "square", body)), ("k", float(rng.uniform(0, 0.1))))
    # volumes: outer sphere of the summed lengths
    outer = ("v", vols[0])
    for v_ in vols[1:]:
        outer = ("+", outer, ("v", v_))
    if has_vector:
        outer = ("+", outer, ("+", ("ix", "shell", 0), ("ix", "shell", 1)))
    form = ("*", ("k", 4.18879), ("f", "cube", outer))
    has_shell = bool(rng.random() < 0.5) and nvol >= 2
    shell = ("-", form, ("*", ("k", 4.18879), ("f", "cube", ("v", vols[0])))) if has_shell else None
    nmodes = int(rng.integers(0, 4))
    modes = []
    for m in range(nmodes):
        modes.append([outer, ("v", vols[0]), ("*", ("k", 0.5), outer)][m])
    valid = None
    if rng.random() < 0.5 and nvol >= 2:
        valid = ("<", ("v", vols[0]), ("*", ("k", 1.6), ("v", vols[1])))      # radius < 1.6*thick
    oriented = bool(d % 5 == 4)
    iqac = None
    if oriented:
        # C-only variant: an axially symmetric 2-D function; the angles come last, after any vector parameter
        pars.append(["theta", "degrees", 60, [-360, 360], "orientation", "latitude"])
        pars.append(["phi", "degrees", 60, [-360, 360], "orientation", "longitude"])
        L0 = lens[int(rng.integers(len(lens)))]
        iqac = ("*", iq, ("+", ("k", 1.0), ("*", ("k", 0.5), ("f", "cos", ("*", ("v", "qc"), L0)))))
        if d % 10 == 9:
            # a shape without rotational symmetry: three view angles and a function of (qa, qb, qc)
            pars.append(["psi", "degrees", 30, [-360, 360], "orientation", "roll"])
            L1 = lens[int(rng.integers(len(lens)))]
            iqac = ("*", iqac, ("+", ("k", 1.0), ("*", ("k", 0.3), ("f", "cos", ("*", ("v", "qa"), L1)))))
    return {"shell_in_ccode": bool(shell is not None and d % 2 == 1),
            "pars": pars, "vols": vols, "has_vector": has_vector, "iq": iq, "form": form, "shell": shell,
            "modes": modes, "valid": valid, "slds": slds, "plain": plain, "oriented": oriented, "iqac": iqac,
            "asymmetric": bool(oriented and d % 10 == 9)}


def txt(e):
    op = e[0]
    if op == "v":
        return e[1]
    if op == "ix":
        return "%s[%d]" % (e[1], e[2])
    if op == "k":
        return repr(float(e[1]))
    if op in "+-*/<":
        return "(%s %s %s)" % (txt(e[1]), op, txt(e[2]))
    if op == "f":
        return "%s(%s)" % (e[1], ", ".join(txt(a) for a in e[2:]))
    raise ValueError(op)


def ev(e, env):
    op = e[0]
    if op == "v":
        return env[e[1]]
    if op == "ix":
        return env[e[1]][e[2]]
    if op == "k":
        return float(e[1])
    if op == "+":
        return ev(e[1], env) + ev(e[2], env)
    if op == "-":
        return ev(e[1], env) - ev(e[2], env)
    if op == "*":
        return ev(e[1], env)*ev(e[2], env)
    if op == "/":
        return ev(e[1], env)/ev(e[2], env)
    if op == "<":
        return ev(e[1], env) < ev(e[2], env)
    if op == "f":
        a = [ev(x, env) for x in e[2:]]
        fn = e[1]
        if fn == "sas_sinx_x":
            return 1.0 if a[0] == 0 else math.sin(a[0])/a[0]
        if fn == "square":
            return a[0]*a[0]
        if fn == "cube":
            return a[0]*a[0]*a[0]
        return getattr(math, fn)(*a)
    raise ValueError(op)


def write_files(defn, name, dirpath, ill=None):
    pars = [list(p) for p in defn["pars"]]
    if ill:
        pars = ill(pars)
    partxt = ",\n    ".join("[%r, %r, %r, [%s, %s], %r, %r]" % (p[0], p[1], p[2], _lim(p[3][0]), _lim(p[3][1]), p[4], p[5])
                             for p in pars)
    vol_args = [p[0].split("[")[0] for p in defn["pars"] if p[4] == "volume"]
    iq_args = [p[0].split("[")[0] for p in defn["pars"] if p[4] != "orientation"]
    head = ('r"""generated plugin %s"""\nfrom numpy import inf\nname = %r\ntitle = "generated"\ndescription = "generated"\n'
            'category = "shape:sphere"\nparameters = [\n    %s\n]\n' % (name, name, partxt))
    modes_txt = "radius_effective_modes = [%s]\n" % ", ".join(repr("mode %d" % (m + 1)) for m in range(len(defn["modes"]))) \
        if defn["modes"] else ""
    # ---- C rendering
    c = head + modes_txt
    c += 'Iq = """\n    return %s;\n"""\n' % txt(defn["iq"])
    if defn.get("iqac") is not None and defn.get("asymmetric"):
        c += 'Iqabc = """\n    const double q = sqrt(qa*qa + qb*qb + qc*qc);\n    return %s;\n"""\n' % txt(defn["iqac"])
    elif defn.get("iqac") is not None:
        c += 'Iqac = """\n    const double q = sqrt(qab*qab + qc*qc);\n    return %s;\n"""\n' % txt(defn["iqac"])
    c += 'form_volume = """\n    return %s;\n"""\n' % txt(defn["form"])
    cdecl = ", ".join(("double *%s" % a if a == "shell" else "double %s" % a) for a in vol_args)
    ccode = ""
    if defn["shell"] is not None and defn.get("shell_in_ccode"):
        # the shell volume written as an ordinary C function in the inline code block
        ccode += "static double shell_volume(%s) {\n    return %s;\n}\n" % (cdecl, txt(defn["shell"]))
    elif defn["shell"] is not None:
        c += 'shell_volume = """\n    return %s;\n"""\n' % txt(defn["shell"])
    if defn["modes"]:
        sw = "\n".join("    case %d: return %s;" % (m + 1, txt(e)) for m, e in enumerate(defn["modes"]))
        ccode += "static double radius_effective(int mode, %s) {\n  switch (mode) {\n    default:\n%s\n  }\n}\n" % (cdecl, sw)
    if ccode:
        c += 'c_code = r"""\n%s"""\n' % ccode
    if defn["valid"] is not None:
        c += "valid = %r\n" % txt(defn["valid"]).replace("(", "", 1)[:-1]
    # ---- Python rendering (same expression text)
    py = head + modes_txt + "from sasmodels.special import *\nimport numpy as np\n"
    valid_py = ""
    if defn["valid"] is not None:
        valid_py = "    if not %s:\n        return np.full_like(q, np.nan)\n" % txt(defn["valid"])
    py += "def Iq(q, %s):\n%s    return %s + 0*q\nIq.vectorized = True\n" % (", ".join(iq_args), valid_py, txt(defn["iq"]))
    py += "def form_volume(%s):\n    return %s\n" % (", ".join(vol_args), txt(defn["form"]))
    if defn["shell"] is not None:
        py += "def shell_volume(%s):\n    return %s\n" % (", ".join(vol_args), txt(defn["shell"]))
    if defn["modes"]:
        body = "".join("    if mode == %d:\n        return %s\n" % (m + 1, txt(e)) for m, e in enumerate(defn["modes"]))
        py += "def radius_effective(mode, %s):\n%s    return %s\n" % (", ".join(vol_args), body, txt(defn["modes"][0]))
    os.makedirs(dirpath, exist_ok=True)
    cpath, ppath = os.path.join(dirpath, name + "_c.py"), os.path.join(dirpath, name + "_py.py")
    with open(cpath, "w") as f:
        f.write(c.replace("name = %r" % name, "name = %r" % (name + "_c")))
    with open(ppath, "w") as f:
        f.write(py.replace("name = %r" % name, "name = %r" % (name + "_py")))
    return cpath, ppath


def _lim(x):
    return "inf" if x == np.inf else "-inf" if x == -np.inf else repr(x)


ILL = {
    "low>=high": lambda P: _mod(P, 0, lambda p: p.__setitem__(3, [p[2], p[2]])),     # empty range around the default
    "default outside limits": lambda P: _mod(P, -1, lambda p: (p.__setitem__(2, 50.0), p.__setitem__(3, [0.0, 10.0]))),
    "duplicate name": lambda P: P + [list(P[0])],
    "theta not orientation": lambda P: P + [["theta", "degrees", 0, [-360, 360], "", ""], ["phi", "degrees", 0, [-360, 360], "", ""]],
    "phi not following theta": lambda P: P + [["theta", "degrees", 0, [-360, 360], "orientation", ""],
                                             ["psi", "degrees", 0, [-360, 360], "orientation", ""],
                                             ["phi", "degrees", 0, [-360, 360], "orientation", ""]],
    "orientation with only Iq": lambda P: P + [["theta", "degrees", 0, [-360, 360], "orientation", ""],
                                              ["phi", "degrees", 0, [-360, 360], "orientation", ""]],
    # theta and phi in the right order at the end of the table, but not adjacent (only used with definitions that do
    # have a 2-D function, so that nothing else is wrong with them)
    "angles split by another parameter": lambda P: _split_angles(P),
    "unknown parameter type": lambda P: _mod(P, 0, lambda p: p.__setitem__(4, "bogus")),
    "vector control non-integer": lambda P: P + [["m_ctl", "", 1.5, [0.5, 2.5], "", ""], ["vec[m_ctl]", "Ang", 1, [0, 10], "volume", ""]],
    # names that collide only after the table has been expanded into the names a caller can set
    "vector element duplicates a scalar": lambda P: P + [["qvv[3]", "Ang", 1, [0, 10], "volume", ""], ["qvv2", "Ang", 1, [0, 10], "volume", ""]],
    "table declares scale": lambda P: P + [["scale", "", 1, [0, 10], "", ""]],
    "table declares background": lambda P: P + [["background", "1/cm", 0.5, [0, 10], "", ""]],
    "name of a generated magnetic parameter": lambda P: P + [["xsld", "1e-6/Ang^2", 1, [-10, 10], "sld", ""],
                                                              ["xsld_M0", "", 0, [-10, 10], "", ""]],
}


def _split_angles(P):
    names = [p[0] for p in P]
    gap = ["gap_len", "Ang", 10.0, [0, np.inf], "", ""]
    if "theta" in names:
        k = names.index("psi") if "psi" in names else names.index("phi")      # before the last angle of the block
        return P[:k] + [gap] + P[k:]
    return P + [["theta", "degrees", 0, [-360, 360], "orientation", ""], gap, ["phi", "degrees", 0, [-360, 360], "orientation", ""]]


def _mod(P, i, fn):
    P = [list(p) for p in P]
    fn(P[i])
    return P


# ---------------------------------------------------------------------------

def expand(defn, pars):
    """env for the harness evaluator from a flat parameter dict."""
    env = {}
    for p in defn["pars"]:
        nm = p[0].split("[")[0]
        if p[4] == "orientation":
            continue
        if "[" in p[0]:
            env[nm] = [pars["%s%d" % (nm, j)] for j in range(1, 4)]
        else:
            env[nm] = pars[nm]
    return env


def formula(defn, info, mesh, q, dim, cutoff, mode):
    """Naive weighted mean over the mesh by walking the definition's expression tree."""
    cp = info.parameters.call_parameters
    n = info.parameters.npars
    cols = mesh[2:2 + n]
    names = [p.name for p in cp[2:2 + n]]
    axes = [list(zip([float(x) for x in np.ravel(c[1])], [float(x) for x in np.ravel(c[2])])) for c in cols]
    qs = [float(x) for x in q[0]] if dim == "1d" else [math.hypot(a, b) for a, b in zip(q[0], q[1])]
    oriented2d = bool(defn.get("oriented")) and dim == "2d"
    view = {nm: float(c[0]) for nm, c in zip(names, cols) if nm in ("theta", "phi", "psi")}
    sw, swf, sws, swr = [], [], [], []
    f2 = [[] for _ in qs]
    ninv = 0
    for combo in itertools.product(*axes):
        pt = {nm: c[0] for nm, c in zip(names, combo)}
        w = 1.0
        for c in combo:
            w *= c[1]
        if oriented2d:
            w *= abs(math.cos(math.radians(pt.get("theta", 0.0))))     # documented weight of a jitter point
        env = expand(defn, pt)
        if defn["valid"] is not None and not ev(defn["valid"], env):
            ninv += 1
            continue
        if not (w > cutoff):
            continue
        form = ev(defn["form"], env)
        shell = ev(defn["shell"], env) if defn["shell"] is not None else form
        sw.append(w)
        swf.append(w*form)
        sws.append(w*shell)
        if mode:
            swr.append(w*ev(defn["modes"][mode-1], env))
        for j, qq in enumerate(qs):
            env["q"] = qq
            if oriented2d:
                qa, qb, qc = sas.particle_q(float(q[0][j]), float(q[1][j]), view["theta"], view["phi"], view.get("psi", 0.0),
                                            pt.get("theta", 0.0), pt.get("phi", 0.0), pt.get("psi", 0.0))
                env["qc"] = qc
                env["qa"] = qa
                f2[j].append(w*ev(defn["iqac"], env))
            else:
                f2[j].append(w*ev(defn["iq"], env))
    W = math.fsum(sw)
    if W == 0:
        return {"F2": np.zeros(len(qs)), "W": 0.0, "shell": 1.0, "ratio": None, "R": 0.0, "invalid": ninv}
    shell = math.fsum(sws)/W
    return {"F2": np.array([math.fsum(x) for x in f2])/W, "W": W, "shell": shell,
            "ratio": math.fsum(swf)/W/shell if shell else None, "R": math.fsum(swr)/W if mode else 0.0, "invalid": ninv}


def run_case(case, rec):
    from sasmodels import core as sascore, direct_model
    d = case["d"]
    rng = core.rng_for(case["seed"], PROP, d)
    defn = gen_definition(rng, d)
    dirpath = os.path.join(os.environ.get("RTM_SCRATCH", "/tmp"), "c09plugins")
    name = "rtm_gen_%04d_%d" % (d, case["seed"])
    cpath, ppath = write_files(defn, name, dirpath)
    try:
        cinfo = sascore.load_model_info(cpath)
        cmodel = sascore.build_model(cinfo, platform="dll")
        if defn["oriented"]:
            # oriented definitions exist in C only (oriented Python models are refused by design)
            pmodel = None
            rec.bucket("has:orientation")
        else:
            pinfo = sascore.load_model_info(ppath)
            pmodel = sascore.build_model(pinfo, platform="dll")
    except Exception as exc:
        rec.check("well_formed_definition_builds", False, {"definition": open(cpath).read()[:1500], "exception": repr(exc)[:1500]})
        return
    if defn["has_vector"]:
        rec.bucket("has:vector")
    if defn["shell"] is not None:
        rec.bucket("has:shell_volume")
        if defn.get("shell_in_ccode"):
            rec.bucket("has:shell_volume-in-inline-c-code")
    if defn["modes"]:
        rec.bucket("has:radius_effective")
    if defn["valid"] is not None:
        rec.bucket("has:valid")
    rec.bucket("lane:" + case.get("lane", "plain"))
    volnames = [p.name for p in cinfo.parameters.call_parameters if p.type == "volume" and p.polydisperse
                and not p.name.startswith("n_shells")]
    for c in range(case["ncase"]):
        # parameter set
        pars = {"scale": float(rng.uniform(0.1, 3)), "background": float(rng.uniform(0, 1))}
        for p in cinfo.parameters.call_parameters[2:]:
            lo, hi = p.limits
            if p.type == "magnetic":
                continue
            if p.name == "n_shells":
                pars[p.name] = float(rng.integers(1, 4))
            elif p.type == "sld":
                pars[p.name] = float(rng.uniform(-1, 7))
            elif p.type == "volume":
                pars[p.name] = float(rng.uniform(5, 90))
            elif p.type == "orientation":
                pars[p.name] = float(rng.uniform(-170, 170))
            else:
                pars[p.name] = float(rng.uniform(max(lo, 0.1), min(hi, 3.0)))
        shape = ["mono", "pd1", "pd2", "pd3", "trunc1", "trunc0", "mono_invalid", "pd2"][c % 8]
        dim = "2d" if c % 3 == 1 else "1d"
        vols = list(rng.permutation(volnames))
        if shape.startswith("pd"):
            nd = min(int(shape[2]), len(vols))
            sizes = [[7], [6, 5], [11, 10], [5, 4, 3]][(c // 8 + nd) % 4][:nd] if nd else []
            sizes = (sizes + [3, 3, 3])[:nd]
            for nm, n in zip(vols[:nd], sizes):
                pars[nm + "_pd"] = float(rng.uniform(0.05, 0.3))
                pars[nm + "_pd_n"] = int(n)
                pars[nm + "_pd_nsigma"] = float(rng.uniform(1.5, 3))
                pars[nm + "_pd_type"] = ["gaussian", "schulz", "lognormal", "uniform", "boltzmann", "rectangle"][int(rng.integers(6))]
                if pars[nm + "_pd_type"] == "rectangle":
                    pars[nm + "_pd_nsigma"] = 1.7
            rec.bucket("mesh:>=2dims" if nd >= 2 else "mesh:1dim")
        elif shape == "trunc1" and vols:
            nm = vols[0]
            pars.update({nm + "_pd": 2.0, nm + "_pd_n": 2, nm + "_pd_nsigma": 1.0, nm + "_pd_type": "gaussian"})
            if len(vols) > 1:
                pars.update({vols[1] + "_pd": 0.2, vols[1] + "_pd_n": 4})
            rec.bucket("trunc:1")
        elif shape == "trunc0" and vols:
            nm = vols[0]
            pars[nm] = -abs(pars[nm])
            pars.update({nm + "_pd": 0.1, nm + "_pd_n": 5})
            rec.bucket("trunc:0")
        elif shape == "mono_invalid" and defn["valid"] is not None:
            v0, v1 = defn["vols"][0], defn["vols"][1]
            pars[v0] = 2.0*pars[v1]            # violates radius < 1.6*thick
            rec.bucket("mono_invalid")
        else:
            rec.bucket("mesh:mono")
        if defn["valid"] is not None and shape in ("pd2", "pd3") and c % 2 == 0:
            # put the mesh across the validity boundary
            v0, v1 = defn["vols"][0], defn["vols"][1]
            pars[v0] = 1.55*pars[v1]
            pars.update({v0 + "_pd": 0.1, v0 + "_pd_n": 5, v0 + "_pd_type": "gaussian", v0 + "_pd_nsigma": 2.0})
        if defn["oriented"] and dim == "2d" and shape in ("mono", "pd1", "pd2"):
            # jitter on one view angle only (psi alone for the shapes that have it, else theta or phi alone)
            ja = "psi" if defn.get("asymmetric") and c % 2 == 1 else ["theta", "phi"][c % 2]
            pars.update({ja + "_pd": float(rng.uniform(5, 30)), ja + "_pd_n": int(rng.integers(3, 7)), ja + "_pd_nsigma": 2.0,
                         ja + "_pd_type": ["gaussian", "uniform"][int(rng.integers(2))]})
            rec.bucket("jitter:" + ja + "-alone")
        cutoff = [0.0, 0.0, 1e-3][c % 3]
        if cutoff:
            rec.bucket("cutoff>0")
        q1 = np.exp(rng.uniform(math.log(1e-3), math.log(0.3), 4))
        q = [q1] if dim == "1d" else [q1*np.cos(0.7), q1*np.sin(0.7)]
        rec.bucket("dim:" + dim)
        mode = int(rng.integers(0, len(defn["modes"]) + 1))
        kc = cmodel.make_kernel(q)
        kp = pmodel.make_kernel(q) if pmodel is not None else None
        ctx = {"definition": d, "shape": shape, "dim": dim, "pars": pars, "cutoff": cutoff, "mode": mode,
               "Iq": txt(defn["iq"])[:300], "valid": txt(defn["valid"]) if defn["valid"] is not None else None}
        Ic = np.asarray(direct_model.call_kernel(kc, dict(pars), cutoff=cutoff), float)
        Ip = np.asarray(direct_model.call_kernel(kp, dict(pars), cutoff=cutoff), float) if kp is not None else Ic
        Fc = direct_model.call_Fq(kc, dict(pars, radius_effective_mode=mode), cutoff=cutoff)
        Fp = direct_model.call_Fq(kp, dict(pars, radius_effective_mode=mode), cutoff=cutoff) if kp is not None else Fc
        mesh = direct_model.get_mesh(cinfo, pars, dim=dim)
        ref = formula(defn, cinfo, mesh, q, dim, cutoff, mode)
        if ref["invalid"]:
            rec.bucket("invalid_points>0")
        exp = pars["scale"]*ref["F2"]/(ref["shell"] if ref["W"] and ref["shell"] else 1.0) + pars["background"]
        sc = float(np.max(np.abs(exp - pars["background"]))) + 1e-300
        key = None
        okpc = core.close(Ip, Ic, 1e-10, 1e-12*sc)
        okpc = okpc and core.close(Fp[1], Fc[1], 1e-10, 1e-12*float(np.max(np.abs(np.asarray(Fc[1], float))) + 1e-300))
        okpc = okpc and core.close(Fp[3], Fc[3], 1e-10) and core.close(Fp[4], Fc[4], 1e-10)
        if defn["modes"] and mode:
            okpc = okpc and core.close(Fp[2], Fc[2], 1e-10)
        if ref["invalid"] and ref["W"] == 0 and all(len(m[1]) == 1 for m in mesh[2:2 + cinfo.parameters.npars]):
            key = "C09/python-monodisperse-invalid-point-not-excluded"
            rec.bucket("mono_invalid")
        if kp is not None:
            rec.check("python_equals_c", okpc, None if okpc else dict(ctx, python=[Ip, Fp[1:]], c=[Ic, Fc[1:]]), key=key)
        okf = core.close(Ic, exp, 1e-10, 1e-12*sc)
        if ref["W"]:
            okf = okf and core.close(Fc[3], ref["shell"] if ref["shell"] else 1.0, 1e-10)
            if ref["ratio"] is not None:
                okf = okf and core.close(Fc[4], ref["ratio"], 1e-10)
            if mode:
                okf = okf and core.close(Fc[2], ref["R"], 1e-10)
        rec.check("both_equal_formula", okf, None if okf else dict(ctx, c=[Ic, Fc[1:]], formula=[exp, ref["shell"], ref["ratio"], ref["R"]]))
        rec.check("no_stale_result", not sas.has_poison(Ic), ctx)
        lengths = [len(m[1]) for m in mesh[2:2 + cinfo.parameters.npars]]
        if shape in ("pd2", "pd3") and sum(1 for n_ in lengths if n_ > 1) >= 2 and c % 2 == 1:
            # the same mesh with weights that are not normalised (a distribution read from a file as histogram counts,
            # another one in small absolute units) and a cutoff between the products: the mean is over the points whose
            # weight product exceeds the cutoff, for both execution paths
            from sasmodels import details as sasdetails
            longest = int(np.argmax(lengths)) + 2
            others = [j_ + 2 for j_, n_ in enumerate(lengths) if n_ > 1 and j_ + 2 != longest]
            mesh2 = [list(m_) for m_ in mesh]
            mesh2[longest][2] = np.asarray(mesh2[longest][2], float)*float(rng.uniform(100, 1000))
            for j_ in others:
                mesh2[j_][2] = np.asarray(mesh2[j_][2], float)*float(10**rng.uniform(-4, -3))
            mesh2 = [tuple(m_) for m_ in mesh2]
            prods = np.sort(np.array([np.prod(w_) for w_ in itertools.product(*[np.asarray(m_[2], float) for m_ in mesh2[2:2 + cinfo.parameters.npars]])]))
            gaps = [(prods[j_ + 1]/prods[j_], j_) for j_ in range(len(prods)//4, 3*len(prods)//4) if prods[j_] > 0]
            if gaps and max(gaps)[0] > 1.3:       # (flat distributions give equal products: no cutoff can sit between them)
                _g, j0 = max(gaps)
                cut2 = float(math.sqrt(prods[j0]*prods[j0 + 1]))
                ref2 = formula(defn, cinfo, mesh2, q, dim, cut2, mode)
                exp2 = pars["scale"]*ref2["F2"]/(ref2["shell"] if ref2["W"] and ref2["shell"] else 1.0) + pars["background"]
                outs = {}
                for nm_, kern_ in (("c", kc), ("python", kp)):
                    if kern_ is None:
                        continue
                    cd_, vals_, mag_ = sasdetails.make_kernel_args(kern_, mesh2)
                    outs[nm_] = np.asarray(kern_.Iq(cd_, vals_, cut2, mag_), float)
                sc2 = float(np.max(np.abs(exp2 - pars["background"]))) + 1e-300
                for nm_, val_ in outs.items():
                    oku = core.close(val_, exp2, 1e-10, 1e-12*sc2)
                    rec.check("both_equal_formula", oku,
                              None if oku else dict(ctx, path=nm_, note="weights not normalised, cutoff %g between weight products" % cut2,
                                                    observed=val_, formula=exp2, retained_weight=ref2["W"]))
                rec.bucket("mesh:unnormalised-weights-with-cutoff")
        if (shape == "pd1" and sum(1 for n_ in lengths if n_ > 1) == 1 and all(n_ >= 1 for n_ in lengths)
                and not (defn.get("oriented") and dim == "2d")):
            # a tabulated distribution whose weights are exact binary fractions, and a cutoff equal to one of them:
            # the mean is over the points whose weight exceeds the cutoff (a point on the cutoff is left out), for both
            # execution paths
            from sasmodels import details as sasdetails
            jx = int(np.argmax(lengths)) + 2
            mesh3 = [list(m_) for m_ in mesh]
            mesh3[jx][2] = np.array([[0.5, 0.25, 0.125][(j_ + c) % 3] for j_ in range(lengths[jx - 2])])
            mesh3 = [tuple(m_) for m_ in mesh3]
            cut3 = [0.25, 0.125][(c // 8) % 2]
            ref3 = formula(defn, cinfo, mesh3, q, dim, cut3, mode)
            exp3 = pars["scale"]*ref3["F2"]/(ref3["shell"] if ref3["W"] and ref3["shell"] else 1.0) + pars["background"]
            sc3 = float(np.max(np.abs(exp3 - pars["background"]))) + 1e-300
            for nm_, kern_ in (("c", kc), ("python", kp)):
                if kern_ is None:
                    continue
                cd_, vals_, mag_ = sasdetails.make_kernel_args(kern_, mesh3)
                val_ = np.asarray(kern_.Iq(cd_, vals_, cut3, mag_), float)
                okb = core.close(val_, exp3, 1e-10, 1e-12*sc3)
                rec.check("both_equal_formula", okb,
                          None if okb else dict(ctx, path=nm_, note="binary-fraction weights %s, cutoff %g equal to one of them"
                                                % (list(mesh3[jx][2]), cut3), observed=val_, formula=exp3,
                                                retained_weight=ref3["W"]), key="C09/weight-equal-to-cutoff")
            rec.bucket("mesh:weight-equal-to-cutoff")
        rec.set_shape((d, shape, dim, lengths, mode, cutoff),
                      nontrivial=(max(lengths + [0]) >= 2 or shape in ("trunc1", "trunc0", "mono_invalid")))
        if c == 0 and d < 3:
            rec.observe(definition=open(cpath).read()[:1200], I_c=Ic, I_python=Ip, formula=exp)
        kc.release()
    if pmodel is not None and d % 3 == 1:
        _run_wrapper(rec, rng, defn, name, dirpath, cpath, ppath, case)
    if d % 4 == 2:
        _run_scalar(rec, rng, name, dirpath, case)
    # one ill-formed variant of this definition must be rejected at load or build
    kind = sorted(ILL)[d % len(ILL)]
    if defn["oriented"]:
        kind = "angles split by another parameter"
    bad_c, bad_p = write_files(defn, name + "_bad", dirpath, ill=ILL[kind])
    for path in (bad_c, bad_p):
        try:
            inf_ = sascore.load_model_info(path)
            m = sascore.build_model(inf_, platform="dll")
            m.make_kernel([np.array([0.01])])
            rec.check("ill_formed_rejected", False, {"kind": kind, "file": os.path.basename(path)},
                      key="C09/ill-formed-accepted/%s/%s" % (kind, "python" if path.endswith("_py.py") else "c"))
        except Exception:
            rec.check("ill_formed_rejected", True)
    rec.bucket("ill:" + kind)


def _mono_pars(rng, info):
    pars = {}
    for p in info.parameters.call_parameters[2:]:
        if p.type == "magnetic":
            continue
        lo, hi = p.limits
        if p.name == "n_shells":
            pars[p.name] = float(rng.integers(1, 4))
        elif p.type == "sld":
            pars[p.name] = float(rng.uniform(-1, 7))
        elif p.type == "volume":
            pars[p.name] = float(rng.uniform(5, 90))
        else:
            pars[p.name] = float(rng.uniform(max(lo, 0.1), min(hi, 3.0)))
    return pars


def _run_scalar(rec, rng, name, dirpath, case):
    """A definition whose Python rendering is written point by point (scalar q, not flagged as vectorised) with constant
    branches that return whole numbers, beside the same text in C: both executions and the formula agree wherever the
    first q of the request falls."""
    from sasmodels import core as sascore, direct_model
    qb, qh = float(rng.uniform(0.004, 0.008)), float(rng.uniform(0.15, 0.2))
    lo_c, hi_c = int(rng.integers(1, 4)), int(rng.integers(0, 2))
    head = ('name = %r\ntitle = "generated"\ndescription = "generated"\ncategory = "shape:sphere"\n'
            'parameters = [["sld", "1e-6/Ang^2", 1.5, [-50, 50], "sld", ""], ["radius", "Ang", 20.0, [0, 1e3], "volume", ""]]\n')
    c = (head % (name + "_sc") +
         'Iq = """\n    if (q < %r) return %d;\n    if (q > %r) return %d;\n'
         '    return sld*sld*radius*radius*radius*exp(-q*q*radius*radius/3.0);\n"""\n'
         'form_volume = """\n    return radius*radius*radius;\n"""\n' % (qb, lo_c, qh, hi_c))
    py = (head % (name + "_sp") + "from math import exp, sqrt\n"
          "def Iq(q, sld, radius):\n    if q < %r:\n        return %d\n    if q > %r:\n        return %d\n"
          "    return sld*sld*radius*radius*radius*exp(-q*q*radius*radius/3.0)\n"
          "def Iqxy(qx, qy, sld, radius):\n    return Iq(sqrt(qx*qx + qy*qy), sld, radius)\n"
          "def form_volume(radius):\n    return radius*radius*radius\n" % (qb, lo_c, qh, hi_c))
    cpath, ppath = os.path.join(dirpath, name + "_sc.py"), os.path.join(dirpath, name + "_sp.py")
    for path, text in ((cpath, c), (ppath, py)):
        with open(path, "w") as f:
            f.write(text)
    try:
        cinfo, pinfo = sascore.load_model_info(cpath), sascore.load_model_info(ppath)
        cmodel, pmodel = sascore.build_model(cinfo, platform="dll"), sascore.build_model(pinfo, platform="dll")
    except Exception as exc:
        rec.check("well_formed_definition_builds", False, {"definition": py, "exception": repr(exc)[:1500]})
        return
    mid = np.exp(rng.uniform(math.log(0.01), math.log(0.1), 3))
    for first in ("low-branch", "high-branch", "formula-branch"):
        q1 = np.concatenate([{"low-branch": [0.5*qb], "high-branch": [1.2*qh], "formula-branch": []}[first], mid,
                             [0.7*qb, 1.1*qh]])
        for dim in ("1d", "2d"):
            q = [q1] if dim == "1d" else [q1*np.cos(0.4), q1*np.sin(0.4)]
            for disp in (False, True):
                pars = {"scale": float(rng.uniform(0.5, 2)), "background": float(rng.uniform(0, 0.5)),
                        "sld": float(rng.uniform(1, 4)), "radius": float(rng.uniform(10, 30))}
                if disp:
                    pars.update(radius_pd=0.2, radius_pd_n=5, radius_pd_nsigma=2.0)
                kc, kp = cmodel.make_kernel(q), pmodel.make_kernel(q)
                Ic = np.asarray(direct_model.call_kernel(kc, dict(pars)), float)
                Ip = np.asarray(direct_model.call_kernel(kp, dict(pars)), float)
                _, rv, rw = direct_model.get_mesh(cinfo, pars, dim=dim)[3]
                qq = np.hypot(q[0], q[1]) if dim == "2d" else q1
                f2 = np.zeros(len(qq))
                for r_, w_ in zip(rv, rw):
                    f2 += w_*np.where(qq < qb, lo_c, np.where(qq > qh, hi_c,
                                                                pars["sld"]**2*r_**3*np.exp(-qq*qq*r_*r_/3.0)))
                exp = pars["scale"]*f2/np.sum(rw*np.asarray(rv)**3) + pars["background"]
                ctx = {"definition": py, "first_q": first, "dim": dim, "pars": pars, "q": q1}
                sc = float(np.max(np.abs(exp)))
                rec.check("python_equals_c", core.close(Ip, Ic, 1e-9, 1e-12*sc), dict(ctx, python=Ip, c=Ic),
                          key="C09/scalar-python-rendering")
                rec.check("both_equal_formula", core.close(Ip, exp, 1e-9, 1e-12*sc) and core.close(Ic, exp, 1e-9, 1e-12*sc),
                          dict(ctx, python=Ip, c=Ic, formula=exp), key="C09/scalar-python-rendering")
                rec.bucket("python:scalar-definition", "scalar:first-q-in-" + first)
                kc.release()


def _run_wrapper(rec, rng, defn, name, dirpath, cpath, ppath, case):
    """The definition used as a component of another plugin (a sum of its C and its Python rendering), both
    renderings already loaded on their own; then the definition is revised on disk (both renderings) and the
    wrapper loaded again: both paths return the formula now on disk."""
    from sasmodels import core as sascore, direct_model
    wpath = os.path.join(dirpath, name + "_sum.py")
    with open(wpath, "w") as f:
        f.write('from sasmodels.core import load_model_info\nmodel_info = load_model_info(%r)\n' % (cpath + "+" + ppath))
    t0 = os.stat(cpath).st_mtime
    os.utime(wpath, (t0 - 50, t0 - 50))
    q1 = np.exp(rng.uniform(math.log(1e-3), math.log(0.3), 4))
    cur = defn
    for step in ("first", "revised"):
        if step == "revised":
            cur = dict(defn)
            cur["iq"] = ("+", ("*", ("k", float(rng.uniform(1.5, 4.0))), defn["iq"]), ("k", float(rng.uniform(0.1, 0.5))))
            cur["form"] = ("*", ("k", float(rng.uniform(0.3, 0.7))), defn["form"])
            if defn["shell"] is not None:
                cur["shell"] = ("*", ("k", 0.5), defn["shell"])
            write_files(cur, name, dirpath)
            for pth in (cpath, ppath):
                os.utime(pth, (t0 + 90, t0 + 90))
        try:
            winfo = sascore.load_model_info(wpath)
            wmodel = sascore.build_model(winfo, platform="dll")
            cinfo = sascore.load_model_info(cpath)
        except Exception as exc:
            rec.check("well_formed_definition_builds", False, {"wrapper": wpath, "step": step, "exception": repr(exc)[:1500]})
            return
        base = _mono_pars(rng, cinfo)
        if cur["valid"] is not None:
            base[cur["vols"][0]] = 1.2*base[cur["vols"][1]]
        sa, sb = float(rng.uniform(0.5, 2)), float(rng.uniform(0.5, 2))
        scale, bg = float(rng.uniform(0.5, 2)), float(rng.uniform(0, 0.5))
        wp = {"scale": scale, "background": bg, "A_scale": sa, "B_scale": sb}
        for kk, vv in base.items():
            wp["A_" + kk], wp["B_" + kk] = vv, vv
        kw = wmodel.make_kernel([q1])
        Iw = np.asarray(direct_model.call_kernel(kw, wp), float)
        kw.release()
        mesh = direct_model.get_mesh(cinfo, dict(base, scale=1.0, background=0.0), dim="1d")
        ref = formula(cur, cinfo, mesh, [q1], "1d", 0.0, 0)
        one = ref["F2"]/(ref["shell"] if ref["W"] and ref["shell"] else 1.0)
        exp = scale*(sa + sb)*one + bg
        ok = core.close(Iw, exp, 1e-10, 1e-12*float(np.max(np.abs(exp))))
        rec.check("both_equal_formula", ok,
                  None if ok else {"definition": case["d"], "through": "sum plugin of the C and the Python rendering", "step": step,
                                   "pars": wp, "observed": Iw, "formula_on_disk": exp, "Iq": txt(cur["iq"])[:300]})
        # the two renderings through the SasView-style loader as well, after the other entry points have loaded them
        from sasmodels import sasview_model
        for rend, pth in (("c", cpath), ("python", ppath)):
            try:
                m_ = sasview_model.load_custom_model(pth)()
                for kk, vv in base.items():
                    m_.setParam(kk, vv)
                m_.setParam("scale", scale)
                m_.setParam("background", bg)
                Isv = np.asarray(m_.evalDistribution(q1.copy()), float)
                exps = scale*one + bg
                oks = core.close(Isv, exps, 1e-10, 1e-12*float(np.max(np.abs(exps))))
            except Exception as exc:
                Isv, exps, oks = repr(exc)[:300], None, False
            rec.check("both_equal_formula", oks,
                      None if oks else {"definition": case["d"], "through": "SasView-style loader, %s rendering" % rend, "step": step,
                                        "observed": Isv, "formula_on_disk": exps})
        rec.bucket("wrapper:" + step)


def classify(case, v):
    return v.get("key")


LEVEL_TEXT = ("Generated plugin definitions are written once with C strings and once with Python functions (same "
              "expression text), loaded and built by the real machinery and evaluated on random parameter sets, "
              "dispersity meshes (incl. truncation, cutoffs, validity boundaries) in 1-D and 2-D; Python and C results "
              "are compared with each other and with a harness evaluation of the expression tree; one ill-formed "
              "variant per definition must be rejected; C builds also run under ASan/UBSan.")
LEVEL_NOTE = "Trusts the harness's expression-tree evaluator and its double rendering; orientation parameters are not generated (Python oriented models are refused by design)."
TECHNIQUE = "three-way differential monitor over generated programs (Python build, C build, direct formula) + rejection monitor + ASan/UBSan lane"
