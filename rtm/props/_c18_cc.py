"""
Scripted compiler used by the C18 check (placed in CC).  It compiles with the
real compiler into a private file and then publishes the result under the
requested output name the way a linker does - remove an existing output, create
a new file - but in two halves with a gate before each half:

    gate cc_write1 : nothing of this compiler's output exists yet
    gate cc_write2 : the first half has been written

Gates are granted by the controller through the control directory.
"""
import os
import subprocess
import sys
import time


def gate(ctrl, tag, name, info=""):
    if not ctrl:
        return
    mode = os.environ.get("RTM_C18_MODE", "gated")
    if name == "cc_done" and mode in ("gated", "free"):
        fail = os.environ.get("RTM_C18_CCFAIL", "")
        if fail and fail.split(":")[0] == name:
            import signal
            if fail.split(":")[1] == "EXIT1":
                sys.exit(1)
            os.kill(os.getpid(), getattr(signal, fail.split(":")[1]))
            time.sleep(5)
        return
    n = _count(ctrl, tag)
    at = os.path.join(ctrl, "%s.at.%d" % (tag, n))
    with open(at + ".tmp", "w") as f:
        f.write("%s %s %s %.6f\n" % (name, os.getpid(), info, time.monotonic()))
    os.replace(at + ".tmp", at)
    if mode.startswith("kill:") and mode.split(":", 1)[1] == name:
        # die here, taking the calling python process with us
        import signal
        os.kill(os.getppid(), signal.SIGKILL)
        os.kill(os.getpid(), signal.SIGKILL)
    if mode.startswith("killcconce:") and mode.split(":")[1] == name:
        # the compiler dies here the first time only (a transient fault); a second attempt finds a working compiler
        marker = os.path.join(ctrl, tag + ".once")
        if not os.path.exists(marker):
            open(marker, "w").close()
            import signal
            sig = mode.split(":")[2]
            if sig == "EXIT1":
                sys.exit(1)
            os.kill(os.getpid(), getattr(signal, sig))
            time.sleep(5)
        return
    if mode.startswith("killcc:") and mode.split(":")[1] == name:
        # the compiler alone dies on a signal (OOM killer, user kill); the caller survives
        import signal
        os.kill(os.getpid(), getattr(signal, mode.split(":")[2]))
        time.sleep(5)
    if mode == "free":
        d = float(os.environ.get("RTM_C18_DELAY_%s" % name, "0") or 0)
        if d:
            time.sleep(d)
        return
    if mode != "gated" or name == "cc_done":
        return
    go = os.path.join(ctrl, "%s.go.%d" % (tag, n))
    t0 = time.monotonic()
    while not os.path.exists(go):
        time.sleep(0.0005)
        if time.monotonic() - t0 > 120:
            sys.exit(97)
    fail = os.environ.get("RTM_C18_CCFAIL", "")
    if fail and fail.split(":")[0] == name:
        # this compiler run fails here, once it has been granted the gate (the caller sees a failed build)
        import signal
        sig = fail.split(":")[1]
        if sig == "EXIT1":
            sys.exit(1)
        os.kill(os.getpid(), getattr(signal, sig))
        time.sleep(5)


def _count(ctrl, tag):
    p = os.path.join(ctrl, tag + ".count")
    try:
        n = int(open(p).read())
    except Exception:
        n = 0
    with open(p + ".tmp", "w") as f:
        f.write(str(n + 1))
    os.replace(p + ".tmp", p)
    return n


def main():
    args = sys.argv[1:]
    ctrl = os.environ.get("RTM_C18_CTRL")
    tag = os.environ.get("RTM_C18_TAG", "p")
    out = args[args.index("-o") + 1]
    private = out + ".rtmcc.%d" % os.getpid()
    real = [os.environ.get("RTM_C18_REAL_CC", "cc")] + [private if a == out else a for a in args]
    res = subprocess.run(real, capture_output=True, text=True)
    if res.returncode != 0:
        sys.stderr.write(res.stderr)
        sys.stdout.write(res.stdout)
        try:
            os.unlink(private)
        except OSError:
            pass
        return res.returncode
    blob = open(private, "rb").read()
    os.unlink(private)
    half = len(blob)//2
    gate(ctrl, tag, "cc_write1", out)
    try:
        os.unlink(out)          # what ld does with an existing ordinary output file
    except OSError:
        pass
    fd = os.open(out, os.O_WRONLY | os.O_CREAT | os.O_TRUNC, 0o755)
    os.write(fd, blob[:half])
    os.fsync(fd)
    gate(ctrl, tag, "cc_write2", out)
    os.write(fd, blob[half:])
    os.close(fd)
    gate(ctrl, tag, "cc_done", out)
    return 0


if __name__ == "__main__":
    sys.exit(main())
