"""
Shared helpers for the value properties of the compiled kernels: model handling,
parameter and dispersity-mesh generators, the naive weighted-mean oracle built on
the raw library, the documented rotation, and the poison (stale read) monitor.
"""
from __future__ import annotations

import itertools
import math
import os

import numpy as np

from rtm import core, native

_cache = {"info": {}, "model": {}, "raw": {}}


# ---------------------------------------------------------------------------
# models
# ---------------------------------------------------------------------------

def list_models(kind="all"):
    from sasmodels import core as sascore
    return sorted(sascore.list_models(kind))


def info(name):
    from sasmodels import core as sascore
    if name not in _cache["info"]:
        _cache["info"][name] = sascore.load_model_info(name)
    return _cache["info"][name]


def is_python(name_or_info):
    i = info(name_or_info) if isinstance(name_or_info, str) else name_or_info
    return callable(i.Iq)


def compiled_models():
    return [m for m in list_models() if not is_python(m)]


def oriented_models():
    return [m for m in compiled_models() if info(m).parameters.orientation_parameters]


def build(name_or_info, dtype="double", platform="dll"):
    from sasmodels import core as sascore
    i = info(name_or_info) if isinstance(name_or_info, str) else name_or_info
    key = (i.id, dtype, platform, id(i))
    if key not in _cache["model"]:
        _cache["model"][key] = sascore.build_model(i, dtype=dtype, platform=platform)
    return _cache["model"][key]


def raw(name_or_info):
    i = info(name_or_info) if isinstance(name_or_info, str) else name_or_info
    key = (i.id, id(i))
    if key not in _cache["raw"]:
        bdir = os.path.join(os.environ.get("RTM_SCRATCH", "/tmp"), "rawlib")
        kw = {}
        if os.environ.get("RTM_LANE") == "asan":
            kw = dict(cc="clang", cflags="-std=c99 -O1 -g -fno-omit-frame-pointer -fsanitize=address,undefined "
                                         "-fno-sanitize-recover=undefined", ldflags="-shared-libsan")
        _cache["raw"][key] = native.RawLib(i, bdir, **kw)
    return _cache["raw"][key]


# ---------------------------------------------------------------------------
# poison monitor: every DllKernel result buffer is filled with a recognisable
# NaN before the real _call_kernel runs; anything that survives is a stale read
# ---------------------------------------------------------------------------

POISON = np.frombuffer(np.array([0x7ff8dead0000beef], dtype=np.uint64).tobytes(), dtype=np.float64)[0]
_poison = {"installed": False, "armed": 0, "calls": []}


def install_poison():
    if _poison["installed"]:
        return
    from sasmodels import kerneldll
    orig = kerneldll.DllKernel._call_kernel

    def _call_kernel(self, call_details, values, cutoff, magnetic, radius_effective_mode):
        try:
            self.result.fill(POISON if self.result.dtype == np.float64 else np.nan)
        except Exception:
            pass
        _poison["armed"] += 1
        return orig(self, call_details, values, cutoff, magnetic, radius_effective_mode)

    kerneldll.DllKernel._call_kernel = _call_kernel
    _poison["installed"] = True


def poison_count():
    return _poison["armed"]


def has_poison(arr):
    a = np.ascontiguousarray(np.asarray(arr, dtype=np.float64))
    return bool(np.any(a.view(np.uint64) == np.uint64(0x7ff8dead0000beef)))


# ---------------------------------------------------------------------------
# invocation trace: (pd_start, pd_stop) of every raw kernel invocation
# ---------------------------------------------------------------------------

class TraceKernel:
    """Proxy around the ctypes function pointers of a DllKernel."""

    def __init__(self, kernel):
        self.kernel = kernel
        self.trace = []
        fns = list(kernel.kernel)
        outer = self

        def wrap(fn):
            def call(*args):
                outer.trace.append((int(args[1]), int(args[2])))
                return fn(*args)
            return call
        kernel.kernel = [wrap(f) for f in fns]
        self._fns = fns

    def restore(self):
        self.kernel.kernel = self._fns


# ---------------------------------------------------------------------------
# parameter sets
# ---------------------------------------------------------------------------

MAGNETIC_COMMON = ("up_frac_i", "up_frac_f", "up_theta", "up_phi")


def base_pars(i, seed, style="random", below_limit=False):
    """Parameter values (no dispersity, no magnetism) inside the declared limits."""
    from sasmodels import compare
    pars = dict(i.parameters.defaults)
    if style in ("random", "wide"):
        with compare.push_seed(int(seed) % (2**31)):
            try:
                p = compare.randomize_pars(i, dict(pars))
            except TypeError:
                # composite infos whose parts lack a random() function: per-parameter generator only
                p = dict((k, compare._randomize_one(i, k, v)) for k, v in sorted(pars.items()))
            compare.constrain_pars(i, p)
        names = {q.name for q in i.parameters.call_parameters}
        for k, v in p.items():
            if k in names and not any(s in k for s in ("_pd", "_M0", "_mtheta", "_mphi")) \
                    and k not in MAGNETIC_COMMON:
                pars[k] = float(v)
    if style == "wide":
        # reach regimes the models' own generators avoid (ratios below one, thin shells, ...)
        r = np.random.default_rng([int(seed) % (2**31), 77])
        for q in i.parameters.call_parameters:
            if q.name in pars and q.type not in ("sld", "orientation", "magnetic") and q.name not in ("scale", "background") \
                    and not getattr(q, "choices", None) and not q.name.startswith("n_"):
                if (q.units or "") == "" and q.type == "volume":
                    pars[q.name] = float(pars[q.name]*10**r.uniform(-1.5, 0.0))    # ratios below one
                elif r.random() < 0.5:
                    pars[q.name] = float(pars[q.name]*10**r.uniform(-1.3, 0.7))
        full = dict(i.parameters.defaults)
        full.update(pars)
        compare.constrain_pars(i, full)
        pars = {k: float(full[k]) for k in pars}
    # keep inside limits; controls integer
    for q in i.parameters.call_parameters:
        if q.name not in pars:
            continue
        lo, hi = q.limits
        v = pars[q.name]
        if below_limit and (q.units or "") == "" and q.type == "volume" and 0 < v < lo:
            continue      # a ratio entered below its declared lower limit (the kernels handle it)
        if np.isfinite(lo) and v < lo:
            v = lo
        if np.isfinite(hi) and v > hi:
            v = hi
        pars[q.name] = float(v)
    for q in i.parameters.kernel_parameters:
        if q.is_control:
            pars[q.name] = float(int(round(pars[q.name])))
    for q in i.parameters.call_parameters:
        # enumerated parameters (e.g. spherical_sld shape): only the listed choices are meaningful
        if getattr(q, "choices", None) and q.name in pars:
            pars[q.name] = float(min(max(int(round(pars[q.name])), 0), len(q.choices) - 1))
    pars = {k: v for k, v in pars.items()
            if not (k in MAGNETIC_COMMON or k.endswith(("_M0", "_mtheta", "_mphi")))}
    return pars


def size_scale(i, pars):
    """Largest length parameter of the case (for choosing q)."""
    s = 0.0
    for q in i.parameters.call_parameters:
        if q.units == "Ang" and q.name in pars:
            s = max(s, abs(pars[q.name]))
    return s if s > 0 else 50.0


def q_values(i, pars, n, rng, lo=0.1, hi=20.0):
    s = size_scale(i, pars)
    q = np.exp(np.linspace(math.log(lo/s), math.log(hi/s), n))
    q = q*np.exp(rng.uniform(-0.05, 0.05, n))
    return np.clip(q, 1e-5, 2.0)


def q_points_2d(i, pars, n, rng):
    q = q_values(i, pars, n, rng, lo=0.3, hi=8.0)
    ang = np.concatenate([[0.0, 90.0, 180.0, 270.0], rng.uniform(0, 360, max(0, n))])[:n]
    rng.shuffle(ang)
    ang = np.radians(ang)
    return q*np.cos(ang), q*np.sin(ang)


# ---------------------------------------------------------------------------
# dispersity configurations
# ---------------------------------------------------------------------------

DIST = ["gaussian", "lognormal", "schulz", "boltzmann", "uniform", "rectangle"]


def pd_names(i, dim):
    """Names that may carry dispersity, from the documented rule (every parameter declared with a volume or
    orientation type, vector elements included; orientation only in 2-D) rather than from the library's own
    pd_1d/pd_2d sets, so that the workload does not shrink when those sets do."""
    out = []
    for p in i.parameters.call_parameters:
        if not p.polydisperse or p.type == "magnetic":
            continue
        if dim != "2d" and p.type == "orientation":
            continue
        out.append(p.name)
    return out


def usable_pd(i, pars, dim):
    """Dispersible parameters whose value allows a relative distribution (non-zero)
    or that are angles; vector entries beyond the control value are left alone."""
    out = []
    active = active_names(i, pars)
    for p in i.parameters.call_parameters:
        if p.name not in pd_names(i, dim) or p.name not in active:
            continue
        if p.type == "orientation" or abs(pars.get(p.name, p.default)) > 0:
            out.append(p)
    return out


def active_names(i, pars):
    """Call-parameter names that are in use given the control parameter values."""
    names = set()
    for p in i.parameters.kernel_parameters:
        if p.length > 1:
            n = p.length
            if p.length_control:
                n = int(pars.get(p.length_control, i.parameters.defaults.get(p.length_control, p.length)))
            for k in range(1, p.length + 1):
                if k <= n:
                    names.add(p.id + str(k))
        else:
            names.add(p.name)
    return names


def add_pd(pars, p, dist, npts, width, nsigma=3.0):
    pars[p.name + "_pd"] = float(width)
    pars[p.name + "_pd_n"] = int(npts)
    pars[p.name + "_pd_nsigma"] = float(nsigma)
    pars[p.name + "_pd_type"] = dist


def factor_sizes(target_class, ndims, rng):
    """Per-dimension point counts whose product falls in the requested class."""
    table = {
        "2..99": {1: [[7], [35], [80]], 2: [[5, 4], [9, 7], [3, 3]], 3: [[4, 3, 3], [5, 4, 4]],
                  4: [[3, 3, 2, 2], [3, 2, 2, 2]], 5: [[2, 2, 2, 2, 2], [3, 2, 2, 2, 2]]},
        "100": {1: [[100]], 2: [[10, 10], [25, 4]], 3: [[5, 5, 4]], 4: [[5, 5, 2, 2]], 5: [[5, 5, 2, 2, 1]]},
        "101..199": {1: [[101], [150]], 2: [[11, 10], [15, 7]], 3: [[7, 5, 3], [5, 5, 5]], 4: [[4, 3, 3, 3], [5, 4, 3, 2]],
                     5: [[3, 3, 3, 2, 2], [4, 3, 3, 2, 2]]},
        "200..400": {1: [[201], [333]], 2: [[21, 10], [20, 15]], 3: [[7, 7, 5], [8, 6, 5]], 4: [[5, 4, 4, 3], [5, 5, 3, 3]],
                     5: [[4, 3, 3, 3, 3], [3, 3, 3, 3, 3]]},
        "~1000": {1: [[1000]], 2: [[40, 25]], 3: [[10, 10, 10]], 4: [[6, 6, 6, 5]], 5: [[5, 4, 4, 4, 3]]},
    }
    opts = table[target_class][ndims]
    sizes = list(opts[int(rng.integers(len(opts)))])
    rng.shuffle(sizes)
    return sizes


# ---------------------------------------------------------------------------
# documented rotation
# ---------------------------------------------------------------------------

def Rx(a):
    a = math.radians(a)
    return np.array([[1, 0, 0], [0, math.cos(a), -math.sin(a)], [0, math.sin(a), math.cos(a)]])


def Ry(a):
    a = math.radians(a)
    return np.array([[math.cos(a), 0, math.sin(a)], [0, 1, 0], [-math.sin(a), 0, math.cos(a)]])


def Rz(a):
    a = math.radians(a)
    return np.array([[math.cos(a), -math.sin(a), 0], [math.sin(a), math.cos(a), 0], [0, 0, 1]])


def particle_q(qx, qy, theta, phi, psi, dtheta, dphi, dpsi):
    """(qa,qb,qc) = R^-1 (qx,qy,0),  R = Rz(phi)Ry(theta)Rz(psi) Rx(dphi)Ry(dtheta)Rz(dpsi)."""
    R = Rz(phi) @ Ry(theta) @ Rz(psi) @ Rx(dphi) @ Ry(dtheta) @ Rz(dpsi)
    return R.T @ np.array([qx, qy, 0.0])


# ---------------------------------------------------------------------------
# the naive weighted mean over the enumerated mesh
# ---------------------------------------------------------------------------

_cost = {}


def eval_cost(i, dim="1d"):
    """Measured seconds per single-particle evaluation of the raw library (per model, per dim)."""
    import time
    key = (i.id, dim)
    if key not in _cost:
        r = raw(i)
        pars = base_pars(i, 1, style="default")
        v = r.flat({k: pars[k] for k in pars if k not in ("scale", "background")} | {})
        t0 = time.perf_counter()
        n = 0
        while n < 3 or (time.perf_counter() - t0 < 0.02 and n < 200):
            if dim == "1d":
                r.Iq(0.02 + 0.001*n, v)
            elif not i.parameters.orientation_parameters:
                r.Iqxy(0.02, 0.01, v) if r.has_iqxy else r.Iq(0.02 + 0.001*n, v)
            elif i.parameters.is_asymmetric:
                r.Iqabc(0.01, 0.02, 0.01, v)
            else:
                r.Iqac(0.02, 0.01, v)
            n += 1
        _cost[key] = (time.perf_counter() - t0)/n
    return _cost[key]


class Oracle:
    """scale*sum(w F^2)/sum(w V_shell)+background etc. from the raw library."""

    def __init__(self, i):
        self.i = i
        self.raw = raw(i)
        self.call_pars = i.parameters.call_parameters
        self.npars = i.parameters.npars

    def enumerate(self, mesh, dim, cutoff):
        """Yield (weight, point dict, view, jitter) for every qualifying mesh point.
        Also returns counters through self.stats."""
        i = self.i
        pars = self.call_pars[2:2 + self.npars]
        cols = mesh[2:2 + self.npars]
        oriented = bool(i.parameters.orientation_parameters) and dim == "2d"
        view = {}
        axes = []
        for p, (value, pts, wts) in zip(pars, cols):
            pts = [float(x) for x in np.asarray(pts).ravel()]
            wts = [float(x) for x in np.asarray(wts).ravel()]
            if p.type == "orientation":
                view[p.name] = float(value)
            axes.append(list(zip(pts, wts)))
        self.stats = {"mesh_points": 0, "below_cutoff": 0, "invalid": 0, "qualifying": 0}
        names = [p.name for p in pars]
        for combo in itertools.product(*axes):
            self.stats["mesh_points"] += 1
            point = {n: c[0] for n, c in zip(names, combo)}
            w = 1.0
            for c in combo:
                w *= c[1]
            jitter = (0.0, 0.0, 0.0)
            if oriented:
                jitter = (point.get("theta", 0.0), point.get("phi", 0.0), point.get("psi", 0.0))
                w *= abs(math.cos(math.radians(jitter[0])))
            v = self.raw.flat(point)
            if not self.raw.valid(v):
                self.stats["invalid"] += 1
                continue
            if not (w > cutoff):
                self.stats["below_cutoff"] += 1
                continue
            self.stats["qualifying"] += 1
            yield w, v, view, jitter

    def F2(self, v, q, dim, view, jitter):
        i = self.i
        if dim == "1d":
            return self.raw.Iq(q, v)
        qx, qy = q
        if not i.parameters.orientation_parameters:
            if self.raw.has_iqxy:
                return self.raw.Iqxy(qx, qy, v)
            return self.raw.Iq(math.sqrt(qx*qx + qy*qy), v)
        qa, qb, qc = particle_q(qx, qy, view.get("theta", 0.0), view.get("phi", 0.0), view.get("psi", 0.0),
                                jitter[0], jitter[1], jitter[2])
        if i.parameters.is_asymmetric:
            return self.raw.Iqabc(qa, qb, qc, v)
        return self.raw.Iqac(math.hypot(qa, qb), qc, v)

    def evaluate(self, mesh, q, dim="1d", cutoff=0.0, mode=0, want_F1=False):
        """q: array (1d) or tuple of arrays (2d).  Returns dict with I-parts."""
        if dim == "1d":
            qs = [float(x) for x in np.asarray(q).ravel()]
        else:
            qs = list(zip([float(x) for x in q[0]], [float(x) for x in q[1]]))
        sw, swf, sws, swr = [], [], [], []
        f2 = [[] for _ in qs]
        f1 = [[] for _ in qs]
        for w, v, view, jitter in self.enumerate(mesh, dim, cutoff):
            sw.append(w)
            swf.append(w*self.raw.form_volume(v))
            sws.append(w*self.raw.shell_volume(v))
            if mode:
                swr.append(w*self.raw.radius_effective(mode, v))
            for k, qq in enumerate(qs):
                if want_F1 and dim == "1d" and self.raw.have_Fq:
                    a, b = self.raw.Fq(qq, v)
                    f1[k].append(w*a)
                    f2[k].append(w*b)
                else:
                    f2[k].append(w*self.F2(v, qq, dim, view, jitter))
        W = math.fsum(sw)
        out = {"weight": W, "n": len(sw)}
        if W == 0.0:
            out.update(F2=np.zeros(len(qs)), F1=np.zeros(len(qs)), form=0.0, shell=0.0, radius=0.0)
            return out
        out["F2"] = np.array([math.fsum(x) for x in f2])/W
        out["F1"] = np.array([math.fsum(x) for x in f1])/W if want_F1 else None
        out["form"] = math.fsum(swf)/W
        out["shell"] = math.fsum(sws)/W
        out["radius"] = math.fsum(swr)/W if mode else 0.0
        return out

    def intensity(self, mesh, q, dim="1d", cutoff=0.0):
        scale, background = float(mesh[0][0]), float(mesh[1][0])
        ev = self.evaluate(mesh, q, dim, cutoff)
        if ev["weight"] == 0.0 or ev["shell"] == 0.0:
            shell = 1.0
        else:
            shell = ev["shell"]
        return scale*ev["F2"]/shell + background, ev
