"""Validate MANIFEST.json and evidence files against the harness schemas."""
import json, sys, os, glob
sys.path.insert(0, "/opt/veriftools/pyvenv/lib/python3.11/site-packages")
def main():
    import jsonschema
    V = os.path.dirname(os.path.dirname(os.path.abspath(__file__)))
    ms = json.load(open("/root/.vp/MANIFEST.schema.json"))
    es = json.load(open("/root/.vp/EVIDENCE.schema.json"))
    m = json.load(open(os.path.join(V, "MANIFEST.json")))
    jsonschema.validate(m, ms)
    print("MANIFEST ok:", len(m["checks"]), "checks;", len(m.get("not_applicable", [])), "n/a")
    props = [json.loads(l)["id"] for l in open(os.path.join(V, "properties.jsonl"))]
    claimed = {c["property_id"] for c in m["checks"]}
    na = {c["property_id"] for c in m.get("not_applicable", [])}
    for p in props:
        if p not in claimed and p not in na:
            print("UNACCOUNTED property", p)
    for c in m["checks"]:
        p = os.path.join(V, c["evidence_file"]) if not os.path.isabs(c["evidence_file"]) else c["evidence_file"]
        if not os.path.exists(p):
            print("missing evidence", p); continue
        e = json.load(open(p))
        try:
            jsonschema.validate(e, es)
            print("evidence ok:", c["property_id"], e["tier"], "evals", e["coverage"]["evaluations"],
                  "distinct", e["coverage"]["distinct_nontrivial"], "viol", e.get("violations"))
        except jsonschema.ValidationError as exc:
            print("EVIDENCE INVALID", p, exc.message[:300])
main()
