"""
Framework core: paths, seeded generators, per-case recorder, helpers shared by
the orchestrator (rtm.cli) and by the workers (rtm.worker).

A property module (rtm/props/cNN.py) provides

    PROP   = "C02"
    LEVEL  = "exploration"
    RULE   = "<how cases are generated; what makes one distinct/non-trivial>"
    ASSUMPTIONS = [...]
    REQUIRED_MONITORS = [...]          # each must be evaluated >= 1 time
    REQUIRED_BUCKETS  = {"quick": [...], "thorough": [...]}
    def gen_cases(tier, seed) -> list[dict]   # JSON-serialisable; keys: id, group, lane
    def run_case(case, rec)                   # executes the real code, feeds monitors
    def classify(violation) -> key            # optional: mechanism key for known findings
"""
from __future__ import annotations

import hashlib
import json
import math
import os
import sys
import time
import traceback

import numpy as np

VERIF = os.path.dirname(os.path.dirname(os.path.abspath(__file__)))
REPO = os.environ.get("VERIF_REPO", "/repo")
PY = "/venv/bin/python"


def setup_paths():
    """Put the repository working tree first, then the contract libraries."""
    deps = os.path.join(VERIF, ".deps")
    for p in (deps, REPO, VERIF):
        if p in sys.path:
            sys.path.remove(p)
    sys.path.insert(0, VERIF)
    sys.path.insert(0, REPO)
    sys.path.append(deps)


def prop_no(prop):
    return int(prop[1:])


def rng_for(seed, prop, *keys):
    ks = [int(seed), prop_no(prop)]
    for k in keys:
        if isinstance(k, str):
            k = int(hashlib.sha256(k.encode()).hexdigest()[:8], 16)
        ks.append(int(k))
    return np.random.default_rng(ks)


def jsonable(x):
    """Convert numpy scalars/arrays and tuples for json.dumps."""
    if isinstance(x, dict):
        return {str(k): jsonable(v) for k, v in x.items()}
    if isinstance(x, (list, tuple)):
        return [jsonable(v) for v in x]
    if isinstance(x, np.ndarray):
        return [jsonable(v) for v in x.tolist()]
    if isinstance(x, (np.integer,)):
        return int(x)
    if isinstance(x, (np.floating,)):
        x = float(x)
    if isinstance(x, float):
        if math.isnan(x):
            return "nan"
        if math.isinf(x):
            return "inf" if x > 0 else "-inf"
        return x
    if isinstance(x, (np.bool_,)):
        return bool(x)
    if isinstance(x, bytes):
        return x.hex()
    if isinstance(x, (str, int, bool)) or x is None:
        return x
    return repr(x)


def close(obs, ref, rtol, atol=0.0):
    """|obs-ref| <= rtol*|ref| + atol elementwise; NaN/inf only equal to themselves."""
    obs = np.asarray(obs, dtype=float)
    ref = np.asarray(ref, dtype=float)
    if obs.shape != ref.shape:
        return False
    fin = np.isfinite(obs) & np.isfinite(ref)
    if not np.isfinite(atol):
        # the caller formed its absolute allowance from a reference that is NaN/inf somewhere: use the finite entries
        fr = np.abs(ref[np.isfinite(ref)]) if ref.shape else np.abs(ref[()])[None][np.isfinite(ref)[None]]
        atol = 1e-2*rtol*float(fr.max()) if fr.size else 0.0
    ok = np.abs(obs - ref) <= rtol*np.abs(ref) + atol
    same_nonfinite = (~fin) & ((np.isnan(obs) & np.isnan(ref)) | (obs == ref))
    return bool(np.all(np.where(fin, ok, same_nonfinite)))


def maxrel(obs, ref, atol=0.0):
    obs = np.asarray(obs, dtype=float)
    ref = np.asarray(ref, dtype=float)
    with np.errstate(all="ignore"):
        d = np.abs(obs - ref)/(np.abs(ref) + atol + 1e-300)
    if d.size == 0:
        return 0.0
    return float(np.nanmax(d)) if np.any(np.isfinite(d)) else float("nan")


class Violation(Exception):
    pass


class Recorder:
    """Collects what the monitors saw while one case executes."""

    def __init__(self, case):
        self.case = case
        self.monitors = {}     # name -> [evaluations, failures]
        self.violations = []   # dicts
        self.buckets = set()
        self.shapes = set()
        self.evaluations = 0
        self.counters = {}
        self.observed = {}
        self.notes = []
        self.skipped = None
        self.inconclusive_reasons = []

    # -- monitors -----------------------------------------------------
    def check(self, monitor, ok, detail=None, key=None):
        m = self.monitors.setdefault(monitor, [0, 0])
        m[0] += 1
        if not ok:
            m[1] += 1
            if len(self.violations) < 20:
                self.violations.append({"monitor": monitor,
                                        "detail": jsonable(detail),
                                        "key": key})
        return bool(ok)

    def check_close(self, monitor, obs, ref, rtol, atol=0.0, what=None, key=None):
        ok = close(obs, ref, rtol, atol)
        detail = None
        if not ok:
            detail = {"what": what, "observed": jsonable(np.asarray(obs, float)),
                      "expected": jsonable(np.asarray(ref, float)),
                      "rtol": rtol, "atol": atol,
                      "max_rel_err": maxrel(obs, ref, atol)}
        return self.check(monitor, ok, detail, key=key)

    def seen(self, monitor, n=1):
        """Count an evaluation of a monitor that can only pass (e.g. a refusal observed)."""
        m = self.monitors.setdefault(monitor, [0, 0])
        m[0] += n

    def bucket(self, *names):
        for n in names:
            self.buckets.add(str(n))

    def count(self, name, n=1):
        self.counters[name] = self.counters.get(name, 0) + n

    def set_shape(self, shape, nontrivial=True):
        """Register one evaluated instance: counted as an evaluation; its shape
        hash is kept only if the instance is non-trivial by the property's rule."""
        self.evaluations += 1
        if nontrivial:
            self.shapes.add(hashlib.sha256(json.dumps(jsonable(shape), sort_keys=True)
                                           .encode()).hexdigest()[:16])

    def observe(self, **kw):
        for k, v in kw.items():
            self.observed[k] = jsonable(v)

    def skip(self, reason):
        self.skipped = reason

    def inconclusive(self, reason):
        """The harness could not make the observation it needs (never a violation)."""
        self.inconclusive_reasons.append(str(reason))

    def to_json(self):
        return {
            "id": self.case.get("id"),
            "monitors": self.monitors,
            "violations": self.violations,
            "buckets": sorted(self.buckets),
            "shapes": sorted(self.shapes),
            "evaluations": self.evaluations,
            "counters": self.counters,
            "observed": self.observed,
            "skipped": self.skipped,
            "inconclusive": self.inconclusive_reasons,
        }


def exception_origin(exc):
    """'repo' if the innermost frame of the traceback lies in the repository
    working tree, else 'harness'."""
    tb = traceback.extract_tb(exc.__traceback__)
    if not tb:
        return "harness"
    inner = tb[-1].filename
    repo = os.path.realpath(REPO)
    if os.path.realpath(inner).startswith(repo + os.sep):
        return "repo"
    # numpy/ctypes frames reached from the repository count as repository too
    for fr in reversed(tb):
        f = os.path.realpath(fr.filename)
        if f.startswith(os.path.realpath(VERIF) + os.sep):
            return "harness"
        if f.startswith(repo + os.sep):
            return "repo"
    return "harness"


def load_prop(prop):
    import importlib
    return importlib.import_module("rtm.props." + prop.lower())


class Timer:
    def __init__(self):
        self.t0 = time.monotonic()

    def __call__(self):
        return time.monotonic() - self.t0


class Held:
    """Results handed out by the code under test, kept *by reference* together with a private copy: a later
    evaluation on the same object must not rewrite what an earlier one returned (no aliasing of internal buffers)."""

    def __init__(self):
        self.items = []

    @staticmethod
    def _snap(obj):
        if isinstance(obj, (tuple, list)):
            return [Held._snap(o) for o in obj]
        if isinstance(obj, np.ndarray):
            return obj.copy()
        return obj

    @staticmethod
    def _same(a, b):
        if isinstance(b, list):
            return len(a) == len(b) and all(Held._same(x, y) for x, y in zip(a, b))
        if isinstance(b, np.ndarray):
            return isinstance(a, np.ndarray) and a.shape == b.shape and bool(np.array_equal(a, b, equal_nan=True))
        return True

    def keep(self, label, obj):
        self.items.append((label, obj, self._snap(obj)))
        return obj

    def verify(self, rec, ctx=None, monitor="earlier_results_not_overwritten"):
        for label, obj, was in self.items:
            same = self._same(obj, was)
            rec.check(monitor, same, None if same else dict(ctx or {}, result=label, was=was,
                                                            now=self._snap(obj)))
