"""Create a planted-break patch: python -m rtm.mkmut C02 name path/in/repo 'old text' 'new text' [count]"""
import difflib, os, sys
VERIF = os.path.dirname(os.path.dirname(os.path.abspath(__file__)))
REPO = "/repo"
def main():
    prop, name, rel, old, new = sys.argv[1:6]
    which = int(sys.argv[6]) if len(sys.argv) > 6 else None
    old = old.encode().decode("unicode_escape"); new = new.encode().decode("unicode_escape")
    src = open(os.path.join(REPO, rel)).read()
    n = src.count(old)
    if n == 0 or (n > 1 and which is None):
        print("ERROR: %d occurrences of old text in %s" % (n, rel)); return 1
    if which is None:
        dst = src.replace(old, new)
    else:
        parts = src.split(old)
        dst = old.join(parts[:which+1]) + new + old.join(parts[which+1:])
    diff = "".join(difflib.unified_diff(src.splitlines(True), dst.splitlines(True), "a/" + rel, "b/" + rel))
    d = os.path.join(VERIF, "mutants", prop.upper()); os.makedirs(d, exist_ok=True)
    path = os.path.join(d, name + ".patch")
    mode = "a" if os.path.exists(path) and os.environ.get("APPEND") else "w"
    open(path, mode).write(diff)
    print("wrote", path)
main()
