"""Regenerate MANIFEST.json from the property modules that exist (run with /venv/bin/python -m rtm.mkmanifest)."""
import json, os, sys, importlib
from rtm import core
core.setup_paths()

BASELINE = ("cd /repo && /venv/bin/python -m pytest -ra -q -p no:cacheprovider --timeout=900 "
            "--continue-on-collection-errors")

def main():
    props = [json.loads(l) for l in open(os.path.join(core.VERIF, "properties.jsonl"))]
    checks, na = [], []
    for p in props:
        pid = p["id"]
        path = os.path.join(core.VERIF, "rtm", "props", pid.lower() + ".py")
        mod = None
        if os.path.exists(path):
            mod = importlib.import_module("rtm.props." + pid.lower())
        if mod is None or not getattr(mod, "REGISTERED", True):
            na.append({"property_id": pid,
                       "reason": getattr(mod, "NA_REASON", "check not built yet in this round; runtime monitoring applies (see DESIGN.md) and the property will be claimed once its monitor is silent on the unchanged tree")})
            continue
        checks.append({
            "property_id": pid,
            "quick_cmd": "./check %s --tier quick" % pid,
            "thorough_cmd": "./check %s --tier thorough" % pid,
            "evidence_file": "evidence/%s.json" % pid,
            "replay_cmd_template": "./check %s --replay {path}" % pid,
            "engine": "rtm",
            "level_claimed": {"category": getattr(mod, "LEVEL", "exploration"),
                              "text": mod.LEVEL_TEXT, "design_ref": getattr(mod, "DESIGN_REF", "DESIGN.md " + pid)},
            "level_note": mod.LEVEL_NOTE,
            "technique": mod.TECHNIQUE,
        })
    hooks_commits = []
    hp = os.path.join(core.VERIF, "hooks_commits.txt")
    if os.path.exists(hp):
        hooks_commits = [l.split()[0] for l in open(hp) if l.strip() and not l.startswith("#")]
    m = {
        "version": 1,
        "setup_cmd": "/venv/bin/pip install -q --no-index --find-links /opt/veriftools/wheels --target /verif/.deps icontract deal",
        "hooks": {"guard": "SASMODELS_VERIF",
                  "enable": "no repository hook is needed: monitors attach from the harness (icontract post-conditions, sys.monitoring failpoints, wrappers around ctypes entry points, CC/CFLAGS/LD_PRELOAD for the sanitizer lane); the guard name is reserved",
                  "baseline_off_cmd": BASELINE,
                  "source_commits": hooks_commits, "add_only": True},
        "engines": [{"name": "rtm", "path": "rtm/", "serves_properties": [c["property_id"] for c in checks],
                     "kind_free_text": "runtime monitoring of the real sasmodels code: reference-model monitors, icontract contracts, ASan/UBSan lane, poison monitor, history/schedule checkers"}],
        "checks": checks,
        "not_applicable": na,
        "notes": "Every check imports sasmodels from /repo's working tree (VERIF_REPO overrides) and compiles kernels into a fresh scratch cache; exit 0 held, 1 violation, 2 inconclusive. known_findings.json lists recorded defects and fixes.",
    }
    with open(os.path.join(core.VERIF, "MANIFEST.json"), "w") as f:
        json.dump(m, f, indent=1)
        f.write("\n")
    print("claimed:", [c["property_id"] for c in checks])
    print("n/a:", [c["property_id"] for c in na])

main()
